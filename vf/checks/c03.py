"""C03 -- compile() of a unitary, state or state system reaches its target.

Space (DESIGN 3.C03): a catalogue of structured targets (24 one-qubit
Cliffords, T, every 2-qubit permutation matrix, sign/phase diagonals, all
products of <= 2 generators of {H(x)I, I(x)H, S(x)I, CNOT, CZ, SWAP},
identities, near-identities, Toffoli/Fredkin/QFT, every relabelling of three
qubit wires (alone and after a CNOT; level 4), qutrit shift / clock /
Fourier / CSUM) plus a few seeded generic targets, states (all basis states,
Bell/GHZ/W/|+..+>, generic) and state systems (first k columns of each
catalogue unitary, k = 1..dim) x entangler {CNOT, CZ, ISWAP} x level, and
list inputs of length 2-3 of distinct targets (order oracle).

compile() is called with with_mapping=True and the result is judged under
the returned mappings: at level 4 PermutationAwareSynthesisPass legitimately
returns the target up to an output permutation which it records as the
final mapping (BQSKit's own tests accept level-4 synthesis "up to a
permutation"); at levels 1-3 the mappings are the identity and the oracle is
the plain Hilbert-Schmidt cost / state overlap / overlap matrix.
"""
from __future__ import annotations

import itertools as it

from vf import c01_cases as K
from vf import c01_driver as D
from vf import c01_oracle as O
from vf.common import Ctx

RULE = (
    'one compile(with_mapping=True) per (target, model, level); targets from '
    'an explicit catalogue (see module doc); non-trivial = ran (ok or crash) '
    'and the target is not an identity; distinct = distinct specification'
)


def U(gen: list) -> dict:
    return {'kind': 'unitary', 'gen': gen}


def S(gen: list) -> dict:
    return {'kind': 'state', 'gen': gen}


def SYS(u: list, k: int) -> dict:
    return {'kind': 'system', 'u': u, 'k': k}


def mk(inp: dict, model: dict | None, level: int, mss: int = 3) -> dict:
    return {'input': inp, 'model': model, 'level': level, 'mss': mss,
            'eps': 1e-8}


def catalogue() -> dict:
    u1 = [['clifford1', i] for i in range(24)] + [['T']] + \
        [['generic', 1, 2, i] for i in range(3)]
    perms2 = [['perm', list(p)] for p in it.permutations(range(4))]
    diags = [['diag', [1, a, b, c]] for a in (1, -1) for b in (1, -1)
             for c in (1, -1)] + [['diag', [1, 1, 1, [0, 1]]]]
    gens = ['HI', 'IH', 'SI', 'CNOT', 'CZ', 'SWAP']
    prods = [['prod2', [g]] for g in gens] + \
        [['prod2', [a, b]] for a in gens for b in gens]
    near = [['nearid', 2, 1e-3], ['nearid', 2, 1e-6]]
    u2 = [['identity', 2, 2]] + perms2 + diags + prods + near + \
        [['generic', 2, 2, 0]]
    u3 = [['toffoli'], ['fredkin'], ['qft', 3], ['identity', 3, 2]]
    uq = [['identity', 1, 3], ['shift3'], ['clock3'], ['fourier3'],
          ['generic', 1, 3, 0], ['csum3'], ['identity', 2, 3]]
    u4 = [['identity', 4, 2], ['qft', 4],
          ['perm', [0, 1, 2, 3, 4, 5, 6, 7, 8, 9, 10, 11, 12, 13, 15, 14]]]
    return {'u1': u1, 'u2': u2, 'u3': u3, 'uq': uq, 'u4': u4,
            'perms2': perms2, 'diags': diags, 'prods': prods, 'near': near}


def states(n_max: int) -> list:
    out = []
    for n in range(1, n_max + 1):
        out += [['basis', n, 2, x] for x in range(2 ** n)]
        out += [['plus', n, 2]]
    out += [['bell'], ['ghz', 3], ['w', 3]][: (1 if n_max < 3 else 3)]
    out += [['generic', 1, 2, 0], ['generic', 2, 2, 0]]
    if n_max >= 3:
        out += [['generic', 3, 2, 0]]
    return out


def enumerate_cases(ctx: Ctx) -> list:
    C = catalogue()
    M = K.model_spec

    def m(n: int, gs: list, d: int = 2) -> dict:
        return M(n, None, gs, d=d, name=f'all{n}-' + '+'.join(gs).lower())
    ent = {'cnot': K.GS_DEFAULT, 'cz': K.GS_CZ_U3, 'iswap': K.GS_ISWAP}
    cases: list = []
    if ctx.quick:
        lv = [1, 2]
        for lvl in lv:
            for g in C['u1']:
                cases.append(mk(U(g), None, lvl))
            for g in C['u1'][:: 5]:
                cases.append(mk(U(g), M(1, [], ['RZ', 'SX'], name='one-zx'),
                                lvl))
        for g in C['u2']:
            cases.append(mk(U(g), None, 1))
        for g in C['u2'][:: 4]:
            cases.append(mk(U(g), None, 2))
        for name in ('cz', 'iswap'):
            for g in C['perms2'][:: 3] + C['diags'][:: 3] + C['near']:
                cases.append(mk(U(g), m(2, ent[name]), 1))
        for g in C['u2'][:: 9]:
            cases.append(mk(U(g), m(2, K.GS_ZX), 1))
        cases.append(mk(U(['identity', 3, 2]), None, 1))
        cases.append(mk(U(['toffoli']), None, 1))
        # level 4 = permutation-aware synthesis: wire relabellings whose
        # cheapest output permutation is a 3-cycle (not an involution)
        for g in (['qperm', [1, 2, 0]], ['qperm', [2, 0, 1]],
                  ['qperm_cx', [1, 2, 0]]):
            cases.append(mk(U(g), None, 4))
        for g in C['uq']:
            cases.append(mk(U(g), None, 1))
        for g in C['uq'][:5]:
            cases.append(mk(U(g), None, 2))
        for s in states(2):
            cases.append(mk(S(s), None, 1))
            # level >= 2 preparation of 2-qubit states does not terminate
            # within 20 minutes on the unchanged tree (thorough tier has two
            # of them, as time-outs); 1-qubit ones and |11> stay here
            if s[0] == 'generic' and s[1] == 1 or s[:3] in (
                    ['basis', 1, 2], ['plus', 1, 2]) or s == ['basis', 2, 2, 3]:
                cases.append(mk(S(s), None, 2))
        cases.append(mk(S(['ghz', 3]), None, 1))
        cases.append(mk(S(['basis', 1, 3, 2]), None, 1))
        cases.append(mk(S(['plus', 2, 3]), None, 1))
        for s in [['bell'], ['basis', 2, 2, 3], ['generic', 2, 2, 0]]:
            cases.append(mk(S(s), m(2, ent['cz']), 1))
        for g in [['perm', [0, 1, 3, 2]], ['prod2', ['HI', 'CNOT']],
                  ['generic', 2, 2, 0], ['diag', [1, 1, 1, -1]]]:
            for k in range(1, 5):
                cases.append(mk(SYS(g, k), None, 1))
        for g in [['clifford1', 1], ['generic', 1, 2, 0]]:
            for k in (1, 2):
                cases.append(mk(SYS(g, k), None, 1))
                cases.append(mk(SYS(g, k), None, 2))
        cases.append(mk(SYS(['perm', [0, 1, 3, 2]], 2), m(2, ent['cz']), 2))
        lists = [
            [U(['perm', [0, 1, 3, 2]]), U(['prod2', ['CZ']])],
            [U(['clifford1', 1]), U(['perm', [1, 0, 3, 2]]), U(['T'])],
            [S(['bell']), U(['prod2', ['SWAP']]), SYS(['prod2', ['HI']], 2)],
        ]
        for items in lists:
            cases.append(mk({'kind': 'list', 'items': items}, None, 1))
        cases.append(mk({'kind': 'list', 'items': lists[0]}, None, 2))
        # a model wider than the target
        cases.append(mk(U(['perm', [0, 1, 3, 2]]), m(3, K.GS_DEFAULT), 1))
        cases.append(mk(S(['bell']), m(3, K.GS_DEFAULT), 1))
    else:
        for lvl in (1, 2, 3, 4):
            for g in C['u1']:
                cases.append(mk(U(g), None, lvl))
                cases.append(mk(U(g), M(1, [], ['RZ', 'SX'], name='one-zx'),
                                lvl))
            for g in C['uq']:
                cases.append(mk(U(g), None, lvl))
        for lvl in (1, 2, 3):
            for name in ent:
                for g in C['u2']:
                    cases.append(mk(U(g), m(2, ent[name]), lvl))
        for g in C['u2']:
            cases.append(mk(U(g), m(2, K.GS_ZX), 1))
        # CNOT+H+T: direct synthesis did not end within 600 CPU-seconds even
        # for CNOT itself (search over H,T words); three probes only
        for g in (['identity', 2, 2], ['perm', [0, 1, 3, 2]],
                  ['prod2', ['HI']]):
            cases.append(mk(U(g), m(2, K.GS_CONST), 1))
        for g in C['perms2'][:: 3] + C['diags'][:: 3] + C['near'] + \
                C['prods'][:: 6] + [['identity', 2, 2], ['generic', 2, 2, 0]]:
            for name in ent:
                cases.append(mk(U(g), m(2, ent[name]), 4))
        for g in C['u3']:
            cases.append(mk(U(g), None, 1))
            cases.append(mk(U(g), None, 2))
            cases.append(mk(U(g), m(3, ent['cz']), 1))
        cases.append(mk(U(['toffoli']), None, 3))
        for p3 in it.permutations(range(3)):
            for kind in ('qperm', 'qperm_cx'):
                cases.append(mk(U([kind, list(p3)]), None, 4))
                cases.append(mk(U([kind, list(p3)]), m(3, ent['cz']), 4))
            cases.append(mk(U(['qperm_cx', list(p3)]), None, 2))
        cases.append(mk(U(['identity', 3, 2]), None, 3))
        cases.append(mk(U(['identity', 3, 2]), None, 4))
        for g in C['u4'][:1] + C['u4'][2:]:
            cases.append(mk(U(g), None, 1, mss=4))
        # States.  Level >= 2 preparation of most 2-qubit states does not
        # terminate within 20 minutes on the unchanged tree (native
        # least-squares minimiser on a state target): levels 2-3 get every
        # 1-qubit state, the four 2-qubit basis states and Bell; whatever
        # exceeds the per-case limit is reported as a cap.
        def small(s: list) -> bool:
            return (s[0] in ('basis', 'plus', 'generic') and s[1] == 1) \
                or s[:3] == ['basis', 2, 2] or s == ['bell']
        for lvl in (1, 2, 3, 4):
            for s in states(3):
                one_qubit = len(s) > 1 and s[1] == 1
                if lvl in (1, 4) or (small(s) and (
                        lvl == 2 or one_qubit or s in (
                            ['basis', 2, 2, 0], ['basis', 2, 2, 3]))):
                    cases.append(mk(S(s), None, lvl))
            for s in [['basis', 1, 3, 2], ['plus', 2, 3], ['plus', 1, 3],
                      ['basis', 2, 3, 4]]:
                cases.append(mk(S(s), None, lvl))
        for name in ('cz', 'iswap'):
            for s in states(2):
                cases.append(mk(S(s), m(2, ent[name]), 1))
                if small(s) and s != ['bell'] and s[:3] != ['basis', 2, 2] \
                        or s == ['basis', 2, 2, 3]:
                    cases.append(mk(S(s), m(2, ent[name]), 2))
        sysu = [['perm', [0, 1, 3, 2]], ['perm', [1, 0, 3, 2]],
                ['prod2', ['HI', 'CNOT']], ['prod2', ['SWAP']],
                ['generic', 2, 2, 0], ['diag', [1, 1, 1, -1]],
                ['identity', 2, 2], ['diag', [1, 1, 1, [0, 1]]]]
        for lvl in (1, 2, 3, 4):
            for g in sysu:
                for k in range(1, 5):
                    cases.append(mk(SYS(g, k), None, lvl))
            for g in C['u1'][:: 4]:
                for k in (1, 2):
                    cases.append(mk(SYS(g, k), None, lvl))
        for name in ('cz', 'iswap'):
            for g in sysu[:4]:
                for k in range(1, 5):
                    cases.append(mk(SYS(g, k), m(2, ent[name]), 1))
        for k in (1, 2, 4, 8):
            cases.append(mk(SYS(['toffoli'], k), None, 1))
        for k in (1, 3, 9):
            cases.append(mk(SYS(['csum3'], k), None, 1))
        for k in (1, 2, 3):
            cases.append(mk(SYS(['fourier3'], k), None, 1))
        lists = [
            [U(['perm', [0, 1, 3, 2]]), U(['prod2', ['CZ']])],
            [U(['clifford1', 1]), U(['perm', [1, 0, 3, 2]]), U(['T'])],
            [S(['bell']), U(['prod2', ['SWAP']]), SYS(['prod2', ['HI']], 2)],
            [S(['basis', 2, 2, 1]), S(['basis', 2, 2, 2])],
            [U(['shift3']), U(['clock3']), U(['clifford1', 2])],
        ]
        for lvl in (1, 2, 3):
            for items in lists:
                cases.append(mk({'kind': 'list', 'items': items}, None, lvl))
        cases.append(mk({'kind': 'list', 'items': lists[0]},
                        m(2, ent['cz']), 1))
        for lvl in (1, 4):
            cases.append(mk(U(['perm', [0, 1, 3, 2]]), m(3, K.GS_DEFAULT),
                            lvl))
            cases.append(mk(S(['bell']), m(3, K.GS_DEFAULT), lvl))
    seen: set = set()
    out = []
    for i, c in enumerate(cases):
        k = K.stable_hash(c)
        if k not in seen:
            seen.add(k)
            out.append((i, c))
    out.sort(key=lambda ic: (ic[1]['level'], D.est_cost(ic[1]), ic[0]))
    return [c for _, c in out]


def tags(case: dict) -> str:
    s = case['input']
    ms = case.get('model')
    gs = '+'.join(ms['gates']) if ms else 'default-model'
    return f'{gs}:level{case["level"]}'


def _judge_one(kind: str, d: int, n: int, t: str, rec: dict) -> list:
    F = D.Finding
    # Judged under the returned mappings when they are usable, and as the
    # circuit stands (identity mappings) otherwise / as well: the statement
    # does not mention mappings, level 4 needs them.  Either suffices.
    cands = []
    if rec['maps_ok'] and 'dist' in rec:
        cands.append(rec['dist'])
    if 'dist_plain' in rec:
        cands.append(rec['dist_plain'])
    if not cands:
        return [F(f'unjudgeable-output:{kind}:radix{d}:{t}',
                  f'output has width {rec["width"]} for a {n}-qudit target '
                  f'and mappings pi={rec["pi"]} pf={rec["pf"]}')]
    dist = min(cands)
    if dist > rec['budget']:
        size = 'semantic' if dist > O.SEMANTIC else 'over-budget'
        return [F(
            f'target-missed:{kind}:{size}:radix{d}:{t}',
            f'{kind} target missed: distance {dist:.3g} > budget '
            f'{rec["budget"]:.3g} (pi={rec["pi"]} pf={rec["pf"]}, output '
            f'gates {rec["gates_out"]})', numeric=True, dist=dist,
        )]
    return []


def _meta(s: dict, seed: int) -> tuple:
    if s['kind'] == 'unitary':
        _, n, d = K.build_unitary(s['gen'], seed)
    elif s['kind'] == 'state':
        _, n, d = K.build_state(s['gen'], seed)
    else:
        _, n, d = K.build_unitary(s['u'], seed)
    return n, d


def judge(case: dict, rec: dict) -> list:
    F = D.Finding
    st = rec['status']
    s = case['input']
    t = tags(case)
    if st == 'crash':
        kind = s['kind']
        return [F(f'crash:{kind}:' + rec['sig'],
                  'compile() accepted the target and raised: '
                  + rec['tb'].strip().splitlines()[-1][:160])]
    if st != 'ok':
        return []
    if s['kind'] == 'list':
        if rec['n_results'] != len(s['items']):
            return [F('list-length',
                      f'{len(s["items"])} inputs, {rec["n_results"]} results')]
        out = []
        for i, (item, r) in enumerate(zip(s['items'], rec['items'])):
            n, d = _meta(item, 0)
            for f in _judge_one(item['kind'], d, n, t, r):
                f.sig = 'list-item:' + f.sig
                f.what = f'result {i} of a list input does not implement ' \
                    f'input {i}: ' + f.what
                out.append(f)
        return out
    n, d = _meta(s, 0)
    return _judge_one(s['kind'], d, n, t, rec)


def run(ctx: Ctx) -> None:
    cases = enumerate_cases(ctx)
    ctx.assumptions += [
        'gate matrices returned by Gate.get_unitary(params) are right (C18)',
        'results are judged under the returned initial/final mapping '
        '(identity below level 4)',
        'budget = synthesis_epsilon * (1 + ops_out + 4)^2 (DESIGN 2.4)',
        'a state system is reached when every listed pair is reached up to '
        'a phase (the common-phase figure is recorded, not judged)',
    ]
    kinds: dict = {}
    for c in cases:
        kinds[c['input']['kind']] = kinds.get(c['input']['kind'], 0) + 1
    ctx.cov['space'] = {
        'cases': len(cases), 'by_kind': kinds,
        'levels': sorted({c['level'] for c in cases}),
    }
    for c in cases[:: max(1, len(cases) // 5)][:6]:
        ctx.sample(D.short(c))
    D.explore(ctx, cases, judge, 110 if ctx.quick else 2400, rule=RULE)


def replay(ctx: Ctx, obj: dict) -> bool:
    return D.replay_case(ctx, obj, judge)
