"""C19 -- cost functions and instantiation are faithful to circuit semantics.

Engine E3.  Sub-harnesses:

  native   every gate class the native engine (bqskitrs) implements itself,
           alone in a circuit: engine matrix / gradient against the library's
           Python definition and against central differences;
  cost1    one operation: every radix tuple x every ordered location x the
           C19 gate catalogue (library, composed, nested, Python twins of the
           native gates, numpy-only user gates) x targets (unitary / state /
           system; own-times-phase, generic, structured) x parameter points:
           HilbertSchmidtCost and HilbertSchmidtResiduals values, gradients,
           zero-iff-equal-up-to-phase, native path == Python path;
  cost2/3  the same on all sequences of 2 / 3 operations of a reduced
           alphabet (which mixes native, composed, Python gates);
  inst     Circuit.instantiate over circuits x targets x (method, minimiser)
           x multistarts in {1,2,4,8} with scripted starts and recorded
           candidates (in-place loop and the async runtime variant).
"""
from __future__ import annotations

import collections
import itertools
import json
import time
from typing import Any

from vf.common import Ctx
from vf.common import pmap

import numpy as np

from vf.c06_gates import build_circuit
from vf.c06_gates import catalogue
from vf.c06_gates import generic_params
from vf.c06_gates import grid
from vf.c06_gates import locations
from vf.c06_gates import nontrivial_location
from vf.c06_gates import num_params_of
from vf.c06_gates import radix_tuples
from vf.c06_gates import spec_name
from vf.c06_ref import reference_unitary
from vf.c19_gates import NATIVE_NAMES
from vf.c19_gates import has_native
from vf.c19_gates import twin_spec
from vf.c19_inst import CONFIGS
from vf.c19_inst import check_instantiate
from vf.c19_oracle import DEFAULT_TARGETS
from vf.c19_oracle import THOROUGH_TARGETS
from vf.c19_oracle import check_costs

RULE = (
    'bounded-exhaustive: (radix tuples over {2,3,4}, width 1-3) x every '
    'ordered location x C19 gate catalogue (native-engine gates, their Python '
    'twins, numpy-only user gates, composed and nested gates) x targets '
    '(unitary/state/system: own unitary times a phase at another grid point, '
    'generic, structured) x parameter points; all 2- and 3-operation '
    'sequences of a reduced alphabet; instantiate over circuits x targets x '
    '(method, minimiser) x multistarts {1,2,4,8} with scripted starts. '
    'Non-trivial: a cost case with a multi-qudit operation on a permuted / '
    'non-adjacent location or in a mixed-radix circuit, or evaluated on both '
    'the native and the Python path; an instantiate case with >= 2 starts '
    'whose candidates do not all tie'
)

SHORT_TARGETS = [['u', 'own', 0.7], ['u', 'generic'], ['s', 'generic'],
                 ['sys', 2, 'generic', 'own', 2.1]]

NATIVE_SIG = {
    (2,): ['RXGate', 'RYGate', 'RZGate', 'U1Gate', 'U2Gate', 'U3Gate'],
    (3,): ['U8Gate'],
    (2, 2): ['RXXGate', 'RYYGate', 'RZZGate', 'CRXGate', 'CRYGate',
             'CRZGate'],
}
NUMPY_SIG = {(2,): 'NumpyQubitGate', (3,): 'NumpyQutritGate',
             (2, 3): 'NumpyMixedGate', (3, 2): 'NumpyMixedGateRev'}


def c19_catalogue(sig: Any, level: str) -> list:
    sig = tuple(int(r) for r in sig)
    core = catalogue(sig, 'core')
    nat = [['lib', n] for n in NATIVE_SIG.get(sig, [])]
    npy = [['py', NUMPY_SIG[sig]]] if sig in NUMPY_SIG else []
    if level == 'one':
        return core[:2] + nat[-2:-1] + npy
    out = core + nat + npy
    if len(sig) <= 2 and int(np.prod(sig)) <= 9:
        out.append(['lib', 'VariableUnitaryGate', len(sig), list(sig)])
    if sig == (2,):
        out += [['frozen', ['lib', 'U3Gate'], {'1': 0.3}],
                ['dagger', ['lib', 'U3Gate']],
                ['tagged', ['lib', 'RZGate'], 't'],
                ['lib', 'PhasedXZGate']]
    if sig == (3,):
        out += [['frozen', ['lib', 'U8Gate'], {'0': 0.4, '7': -1.0}]]
    if sig == (2, 2):
        out += [['frozen', ['lib', 'CRYGate'], {}],
                ['dagger', ['lib', 'RZZGate']],
                ['ctrl', ['lib', 'RYGate'], 1, [2], [[0]]],
                ['lib', 'FSIMGate'], ['lib', 'CUGate']]
    return out


def alphabet(rad: tuple, level: str, max_arity: int = 3) -> list:
    out = []
    for li, loc in enumerate(locations(rad, max_arity)):
        cat = c19_catalogue([rad[q] for q in loc],
                            'full' if level == 'rot' else level)
        if level == 'rot':
            cat = [c for c in cat if 'VariableUnitaryGate' not in c]
            out.append((cat[(li * 5 + len(rad)) % len(cat)], loc))
        else:
            out += [(s, loc) for s in cat]
    return out


def _twin_case(case: dict) -> dict | None:
    if not any(has_native(o[0]) for o in case['ops']):
        return None
    t = dict(case)
    t['ops'] = [[twin_spec(s), loc, ps] for s, loc, ps in case['ops']]
    return t


def _native_names(spec: list) -> set:
    """Natively implemented gate classes evaluated *as such* inside spec.
    (A composed gate is evaluated through Python: nothing inside is native.)"""
    if spec[0] == 'lib' and spec[1] in NATIVE_NAMES:
        return {spec[1]}
    return set()


def _nontrivial(case: dict) -> bool:
    rad = case['radixes']
    multi = [o for o in case['ops'] if len(o[1]) > 1]
    if multi and (any(nontrivial_location(o[1]) for o in multi)
                  or len(set(rad)) > 1):
        return True
    return _twin_case(case) is not None


def judge_cost(case: dict, tspecs: list, extra_points: list,
               broken: dict) -> tuple[list, str]:
    """Check one circuit; findings must reproduce on two re-runs."""
    names: set = set()
    for o in case['ops']:
        names |= _native_names(o[0])
    bg = sorted(n for n in names if 'grad' in broken.get(n, ()))
    bv = sorted(n for n in names if 'unitary' in broken.get(n, ()))
    L = len(case['ops'])
    feature = (spec_name(case['ops'][0][0]) if L == 1 else f'{L}ops') + (
        '-permuted' if any(nontrivial_location(o[1]) for o in case['ops'])
        else '-ascending')

    def once() -> list:
        try:
            c = build_circuit(case)
            tc = _twin_case(case)
            tw = build_circuit(tc) if tc is not None else None
        except Exception as e:  # noqa
            return [(f'construction-raised-{type(e).__name__}:{feature}',
                     repr(e))]
        return list(check_costs(
            c, feature, case['seed'], tspecs, twin=tw,
            points=[[float(v) for v in c.params]] + extra_points,
            broken_grad=bg, broken_value=bv,
        ))
    found = once()
    if found:
        again = [set(s for s, _ in once()) for _ in range(2)]
        found = [(s, w) for s, w in found if all(s in a for a in again)]
    tc = _twin_case(case)
    P = sum(len(o[2]) for o in case['ops'])
    label = ('constant-circuit' if P == 0 else 'parameterised') + (
        '-native+python-path' if tc is not None else '-python-path-only'
        if any(o[0][0] != 'const' for o in case['ops']) else '-constants')
    return found, label


class Acc:
    def __init__(self) -> None:
        self.n = 0
        self.nontriv = 0
        self.viol: list = []
        self.out: collections.Counter = collections.Counter()
        self.parts: collections.Counter = collections.Counter()
        self.samples: list = []
        self.done = True

    def pack(self) -> dict:
        return {'n': self.n, 'nontriv': self.nontriv, 'viol': self.viol[:60],
                'out': dict(self.out), 'parts': dict(self.parts),
                'samples': self.samples[:2], 'done': self.done}


def _stale_structure(case: dict) -> list:
    """calc_cost must see the circuit as it is *now* (after an edit)."""
    from bqskit.ir.opt.cost.functions import HilbertSchmidtCostGenerator
    from bqskit.ir.opt.cost.functions import HilbertSchmidtResidualsGenerator
    from bqskit.qis.unitary.unitarymatrix import UnitaryMatrix
    from vf.c06_gates import build_gate, generic_unitary
    from vf.c06_ref import hs_cost
    c = build_circuit(case)
    rad = [int(r) for r in c.radixes]
    T = generic_unitary(rad, case['seed'], 'c19-stale')
    target = UnitaryMatrix(T, rad)
    out = []
    for gname, gen in (('cost', HilbertSchmidtCostGenerator()),
                       ('residuals', HilbertSchmidtResidualsGenerator())):
        try:
            c1 = float(gen.calc_cost(c, target))
            want1 = hs_cost(T, reference_unitary(c))
            c.append_gate(build_gate(['const', [rad[0]], 'stale'],
                                     case['seed']), [0])
            c2 = float(gen.calc_cost(c, target))
            want2 = hs_cost(T, reference_unitary(c))
        except Exception as e:  # noqa
            out.append((f'calc_cost-raised-{type(e).__name__}:{gname}',
                        repr(e)))
            continue
        if abs(c1 - want1) > 1e-10:
            out.append((f'calc_cost-ne-definition:{gname}',
                        f'calc_cost={c1}, definition {want1}'))
        if abs(c2 - want2) > 1e-10:
            out.append((f'calc_cost-stale-after-structural-edit:{gname}',
                        f'after appending an operation calc_cost={c2}, the '
                        f'edited circuit gives {want2} (before: {want1})'))
    return out


def _job_cost(job: dict) -> dict:
    acc = Acc()
    rad, seed, L = tuple(job['radixes']), job['seed'], job['length']
    A = alphabet(rad, job['level'], job.get('max_arity', 3))
    tspecs = job['targets']
    broken = job['broken']
    g = grid(seed)
    for first in A[job['lo']:job['hi']]:
        for rest in itertools.product(A, repeat=L - 1):
            if time.time() > job['deadline']:
                acc.done = False
                return acc.pack()
            ops = [first] + list(rest)
            case = {'radixes': list(rad), 'seed': seed, 'ops': [
                [s, list(loc),
                 generic_params(num_params_of(s), seed, ('op', i))]
                for i, (s, loc) in enumerate(ops)
            ]}
            P = sum(len(o[2]) for o in case['ops'])
            extra = [[v] * P for v in g] if job.get('grid') and P else []
            if any('VariableUnitaryGate' in json.dumps(o[0])
                   for o in case['ops']):
                # all-equal parameters are a singular matrix: "the closest
                # unitary" is not unique there, nothing to compare
                extra = []
            found, label = judge_cost(case, tspecs, extra, broken)
            do_stale = bool(job.get('stale')) and L == 1 and not any(
                'unitary' in broken.get(n, ())
                for o in case['ops'] for n in _native_names(o[0]))
            if do_stale:
                found += _stale_structure(case)
            acc.n += 1
            acc.nontriv += _nontrivial(case)
            acc.parts[f'cost{L}-width{len(rad)}'] += 1
            acc.parts['cost-function-evaluations'] += \
                len(tspecs) * (2 if P else 1) * (1 + len(extra))
            acc.out[label if not found else 'violation'] += 1
            for s, w in found:
                acc.viol.append((s, w, {
                    'kind': 'cost', 'case': case, 'targets': tspecs,
                    'extra_points': extra, 'broken': broken,
                    'stale': do_stale}))
            if acc.n % 199 == 1:
                acc.samples.append({'cost-case': case,
                                    'targets': tspecs[:3]})
    return acc.pack()


def _job_inst(job: dict) -> dict:
    acc = Acc()
    for case, tspec, config, n, path in job['items']:
        if time.time() > job['deadline']:
            acc.done = False
            break
        f, label = check_instantiate(case, tspec, config, n, path)
        if f:                                   # must reproduce
            f2, _ = check_instantiate(case, tspec, config, n, path)
            f3, _ = check_instantiate(case, tspec, config, n, path)
            keep = {s for s, _ in f2} & {s for s, _ in f3}
            f = [(s, w) for s, w in f if s in keep]
        if label in ('not-capable', 'unsupported'):
            acc.out[f'{label}:{config}'] += 1
            continue
        acc.n += 1
        acc.parts[f'inst-{config}-{path}'] += 1
        acc.parts[f'inst-starts{n}'] += 1
        if n >= 2 and 'tie' not in label:
            acc.nontriv += 1
        acc.out[label if not f else 'violation'] += 1
        for s, w in f:
            acc.viol.append((s, w, {'kind': 'inst', 'case': case,
                                    'target': tspec, 'config': config,
                                    'starts': n, 'path': path}))
        if acc.n % 97 == 1:
            acc.samples.append({'instantiate': case, 'target': tspec,
                                'config': config, 'multistarts': n})
    return acc.pack()


_JOBS = {'cost': _job_cost, 'inst': _job_inst}


def _dispatch(job: dict) -> dict:
    r = _JOBS[job['job']](job)
    r['job'] = {k: v for k, v in job.items()
                if k not in ('deadline', 'items', 'broken', 'targets')}
    return r


# ------------------------------------------------------- native gate scan
def native_scan(seed: int) -> tuple[dict, list, int]:
    """Every natively implemented gate class, alone, at two placements."""
    import bqskitrs
    from vf.c06_gates import build_gate
    from vf.c06_ref import reference_grad
    broken: dict = {}
    viol = []
    n = 0
    for name in NATIVE_NAMES:
        spec = ['lib', name]
        g = build_gate(spec, seed)
        k = g.num_qudits
        sig = list(g.radixes)
        places = [(sig, list(range(k)))]
        if k == 1:
            places.append(([3] + sig + [2], [1]))
        else:
            places.append(([sig[1], 3, sig[0]], [2, 0]))
        for rad, loc in places:
            fixed = [[v] * g.num_params for v in grid(seed)[:5]]
            seeded = [[grid(seed)[5]] * g.num_params,
                      generic_params(g.num_params, seed, 'nat')]
            for pi, ps in enumerate(fixed + seeded):
                n += 1
                # fixed grid values first: the simplest counterexample (and
                # its replay file) is the same for every VERIF_SEED
                case = {'radixes': rad, 'seed': seed if pi >= 5 else 0,
                        'ops': [[spec, loc, ps]]}
                c = build_circuit(case)
                nc = bqskitrs.Circuit(c)
                U = reference_unitary(c, ps)
                Un, Gn = nc.get_unitary_and_grad(ps)
                bad = set()
                if np.max(np.abs(np.asarray(Un) - U)) > 1e-10:
                    bad.add('unitary')
                Gr = reference_grad(c, ps)
                tol = 1e-5 * (1 + float(np.max(np.abs(Gr))))
                if np.asarray(Gn).shape != Gr.shape or \
                        np.max(np.abs(np.asarray(Gn) - Gr)) > tol:
                    bad.add('grad')
                for b in sorted(bad):
                    broken.setdefault(name, set()).add(b)
                    what = ('matrix' if b == 'unitary' else 'gradient')
                    viol.append((
                        f'native-gate-{"unitary" if b == "unitary" else "gradient"}'
                        f'-ne-python-definition:{name}',
                        f'bqskitrs evaluates {name} itself; its {what} at '
                        f'{ps} differs from the library\'s Python definition '
                        f'of {name} (and from central differences of it)',
                        {'kind': 'native', 'case': case},
                    ))
    return {k: sorted(v) for k, v in broken.items()}, viol, n


# -------------------------------------------------------------------- plan
def _chunks(n: int, k: int) -> list[tuple[int, int]]:
    step = max(1, -(-n // k))
    return [(i, min(n, i + step)) for i in range(0, n, step)]


def _mk(rad: Any, ops: list, seed: int) -> dict:
    return {'radixes': list(rad), 'seed': seed, 'ops': [
        [s, list(loc), generic_params(num_params_of(s), seed, ('op', i))]
        for i, (s, loc) in enumerate(ops)
    ]}


def inst_circuits(seed: int, thorough: bool) -> dict:
    c = {
        'u3': _mk((2,), [(['lib', 'U3Gate'], (0,))], seed),
        'qubits': _mk((2, 2), [
            (['lib', 'U3Gate'], (0,)), (['lib', 'CNOTGate'], (1, 0)),
            (['lib', 'CRYGate'], (0, 1)), (['lib', 'U2Gate'], (1,)),
        ], seed),
        'mixed': _mk((2, 3), [
            (['lib', 'U3Gate'], (0,)), (['py', 'NumpyMixedGate'], (0, 1)),
            (['lib', 'RSU3Gate', 2], (1,)),
        ], seed),
        'wide': _mk((3, 2, 2), [
            (['py', 'NumpyMixedGateRev'], (0, 2)),
            (['lib', 'RZZGate'], (2, 1)),
            (['ctrl', ['lib', 'RXGate'], 1, [3], [[1, 2]]], (0, 1)),
            (['frozen', ['lib', 'U3Gate'], {'1': 0.3}], (2,)),
        ], seed),
        'vug': _mk((3, 2), [
            (['lib', 'VariableUnitaryGate', 1, [3]], (0,)),
            (['lib', 'VariableUnitaryGate', 2, [2, 3]], (1, 0)),
            (['lib', 'HGate'], (1,)),
        ], seed),
        'pyopt': _mk((2, 2), [
            (['py', 'PyU3Gate'], (0,)),
            (['lib', 'VariableUnitaryGate', 2, [2, 2]], (1, 0)),
            (['dagger', ['lib', 'U3Gate']], (1,)),
        ], seed),
        # two parameterised operations sharing a cycle, one on a location
        # written high-to-low: iteration order (by location[0]) and grid
        # order (by lowest qudit) disagree, so whoever writes the winning
        # parameters back must use the circuit's own flat indexing
        'permuted-cycle': _mk((2, 2, 2), [
            (['lib', 'RZZGate'], (2, 0)), (['lib', 'RYGate'], (1,)),
            (['lib', 'CNOTGate'], (1, 2)), (['lib', 'U3Gate'], (0,)),
        ], seed),
        'constant': _mk((2, 2), [
            (['lib', 'CNOTGate'], (1, 0)), (['lib', 'HGate'], (1,)),
        ], seed),
    }
    if thorough:
        c['nested'] = _mk((2, 3), [
            (catalogue((2, 3), 'core')[2], (0, 1)),
            (['lib', 'U8Gate'], (1,)),
            (['lib', 'RYGate'], (0,)),
        ], seed)
        c['qutrits'] = _mk((3, 3), [
            (['lib', 'U8Gate'], (1,)), (['lib', 'CSUMGate', 3], (1, 0)),
            (['embed', ['lib', 'CRYGate'], [3, 3], [[0, 2], [1, 2]]],
             (0, 1)),
        ], seed)
    return c


INST_TARGETS = [['u', 'own', 0.7], ['u', 'generic'], ['s', 'generic'],
                ['s', 'own', -1.3], ['sys', 2, 'generic', 'own', 2.1],
                ['sys', 1, 'basis', 'generic', 0.0]]


QUICK_INST_TARGETS = [INST_TARGETS[0], INST_TARGETS[1], INST_TARGETS[2],
                      INST_TARGETS[4]]


def inst_items(seed: int, thorough: bool) -> list:
    from bqskit.ir.opt.instantiaters import Minimization, QFactor
    items = []
    circuits = inst_circuits(seed, thorough)
    for name, case in circuits.items():
        c = build_circuit(case)
        min_ok = Minimization.is_capable(c)
        # QFactor: the engine implements optimize() only for
        # VariableUnitaryGate and Python call-back gates
        qf_ok = QFactor.is_capable(c) and not any(
            o[0][0] == 'lib' and o[0][1] in NATIVE_NAMES for o in case['ops']
        )
        for tspec in (INST_TARGETS if thorough else QUICK_INST_TARGETS):
            for config in CONFIGS:
                is_qf = config.startswith('qfactor')
                if is_qf and (not qf_ok or tspec[0] != 'u'):
                    continue
                if config.startswith('minimization') and not min_ok:
                    continue
                if config == 'default' and not (min_ok or (
                        qf_ok and tspec[0] == 'u')):
                    continue
                starts: tuple = (1, 2, 4, 8)
                if not thorough:
                    if config == 'minimization-lbfgs':
                        starts = (1, 4)
                    elif config.endswith('-instance'):
                        starts = (2, 8)
                if config == 'minimization-scipy':
                    if name in ('wide', 'nested', 'qutrits', 'mixed'):
                        continue
                    starts = (1, 2, 4, 8) if thorough else (1, 4)
                for n in starts:
                    items.append([case, tspec, config, n, 'inplace'])
                if config in ('minimization-ceres', 'qfactor') or (
                        thorough and config == 'minimization-lbfgs') or (
                        config == 'default' and not min_ok):
                    for n in ((2, 4) if not thorough else (1, 2, 4, 8)):
                        items.append([case, tspec, config, n, 'async'])
    return items


def plan(ctx: Ctx, broken: dict) -> list[dict]:
    seed = ctx.seed
    jobs: list[dict] = []

    def cost(rad: tuple, L: int, level: str, targets: list, parts: int,
             max_arity: int = 3, **kw: Any) -> None:
        nA = len(alphabet(rad, level, max_arity))
        for lo, hi in _chunks(nA, parts):
            jobs.append({'job': 'cost', 'radixes': list(rad), 'length': L,
                         'level': level, 'targets': targets, 'lo': lo,
                         'hi': hi, 'max_arity': max_arity, 'seed': seed,
                         'broken': broken, **kw})

    items = inst_items(seed, not ctx.quick)
    per = 12 if ctx.quick else 16
    inst_jobs = [{'job': 'inst', 'items': items[i::max(1, len(items) // per)],
                  'seed': seed}
                 for i in range(max(1, len(items) // per))]
    if ctx.quick:
        for rad in radix_tuples(1):
            cost(rad, 1, 'full', DEFAULT_TARGETS, 2, grid=True, stale=True)
        for rad in radix_tuples(2):
            cost(rad, 1, 'full', DEFAULT_TARGETS if rad in QUICK_W2_FULL
                 else SHORT_TARGETS, 2, stale=True)
        jobs += inst_jobs[: len(inst_jobs) // 2]
        for rad in QUICK_W3:
            cost(rad, 1, 'full', SHORT_TARGETS, 4)
        for rad in ((2, 2), (2, 3), (3, 2)):
            cost(rad, 2, 'rot', SHORT_TARGETS, 4)
        jobs += inst_jobs[len(inst_jobs) // 2:]
        cost((2, 3, 2), 2, 'rot', SHORT_TARGETS, 4, 2)
    else:
        for w in (1, 2):
            for rad in radix_tuples(w):
                cost(rad, 1, 'full', THOROUGH_TARGETS, 4, grid=True,
                     stale=True)
        for rad in radix_tuples(3):
            cost(rad, 1, 'full', DEFAULT_TARGETS, 6, stale=True)
        jobs += inst_jobs
        for rad in radix_tuples(2):
            cost(rad, 2, 'full' if rad in ((2, 2), (2, 3)) else 'one',
                 SHORT_TARGETS, 16)
        for rad in radix_tuples(3):
            cost(rad, 2, 'rot', SHORT_TARGETS, 8)
        for rad in radix_tuples(2):
            cost(rad, 3, 'rot', DEFAULT_TARGETS, 4)
        for rad in ((2, 2), (2, 3)):
            cost(rad, 3, 'one', SHORT_TARGETS, 16)
        for rad in ((2, 3, 2), (3, 2, 4), (2, 2, 2)):
            cost(rad, 3, 'rot', SHORT_TARGETS, 15, 2)
    return jobs


QUICK_W3 = [(2, 3, 4), (3, 2, 2)]
QUICK_W2_FULL = [(2, 2), (2, 3), (3, 3)]


def _process_age() -> float:
    """Seconds since this process started (Linux /proc; 0.0 if unknown)."""
    try:
        import os
        with open('/proc/self/stat') as fh:
            start_ticks = float(fh.read().rsplit(')', 1)[1].split()[19])
        with open('/proc/uptime') as fh:
            up = float(fh.read().split()[0])
        return max(0.0, up - start_ticks / os.sysconf('SC_CLK_TCK'))
    except Exception:  # noqa
        return 0.0


def run(ctx: Ctx) -> None:
    ctx.cov['rule'] = RULE
    ctx.assumptions += [
        'circuit semantics = the numpy reference of vf/c06_ref.py (C06 '
        'ties Circuit.get_unitary to it)',
        'cost definitions: unitary 1-|tr(T^+U)|/N, state 1-|<t|U|0>|^2, '
        'system 1-|sum_i<out_i|U|in_i>|/k (what calc_cost of both '
        'generators returns; all are zero exactly when equal up to a global '
        'phase)',
        'residual definitions taken from the shipped engine (the Python '
        'package documents none): unitary/system sum r^2 = ||U M^+ - 1||_F^2, '
        'state r_i = |(U|0>-t)_i|^2; the residual *vector* is not '
        'phase-invariant, the get_cost of the residual function is',
        'instantiate: an exception is judged only for combinations the '
        'library supports (Minimization: all targets; QFactor: unitary '
        'targets, gates the engine can optimize)',
    ]
    # the quick budget counts from process start (imports can take 20 s on
    # a loaded machine), so that the whole run stays within ~90 s
    age = _process_age()
    budget = max(25.0, 70.0 - age) if ctx.quick else 1500.0
    deadline = time.time() + budget
    broken, viol, n = native_scan(ctx.seed)
    ctx.cov['evaluations'] += n
    ctx.part('native', single_gate_cases=n,
             gates=len(NATIVE_NAMES), broken=sorted(broken))
    ctx.outcomes['native-gate-ok'] += n - len(viol)
    if viol:
        ctx.outcomes['native-gate-differs'] += len(viol)
    jobs = plan(ctx, broken)
    for j in jobs:
        j['deadline'] = deadline
    done_jobs = 0
    unfinished: list = []
    for r in pmap(_dispatch, jobs, procs=ctx.procs, deadline=deadline + 6):
        done_jobs += 1
        ctx.cov['evaluations'] += r['n']
        ctx.cov['distinct_nontrivial'] += r['nontriv']
        for k, v in r['out'].items():
            ctx.outcomes[k] += v
        for k, v in r['parts'].items():
            ctx.part(k.split('-')[0], **{k: v})
        for s in r['samples']:
            ctx.sample(s)
        viol += r['viol']
        if not r['done']:
            unfinished.append(r['job'])
    if done_jobs < len(jobs) or unfinished:
        ctx.cap(
            f'time budget {budget:.0f}s: {len(jobs) - done_jobs} of '
            f'{len(jobs)} jobs not returned, {len(unfinished)} cut short '
            f'(first: {json.dumps(unfinished[:3])})',
        )
    ctx.cov['jobs'] = len(jobs)

    def size(v: tuple) -> tuple:
        rp = v[2]
        c = rp['case']
        d = 1
        for r_ in c['radixes']:
            d *= r_
        order = {'native': 0, 'cost': 1, 'inst': 2}[rp['kind']]
        return (order, len(c['ops']), d, rp.get('starts', 0),
                '' if rp['kind'] == 'native' else      # keep scan order
                json.dumps(rp, sort_keys=True, default=str))
    for s, w, rp in sorted(viol, key=size):
        ctx.violation(s, w, rp)


def replay(ctx: Ctx, obj: dict) -> bool:
    if obj['kind'] == 'native':
        broken, viol, _ = native_scan(obj['case']['seed'])
        name = obj['case']['ops'][0][0][1]
        hit = [v for v in viol if v[0].endswith(':' + name)]
        for s, w, _ in hit[:3]:
            print(f'  {s}: {w}')
        return not hit
    if obj['kind'] == 'cost':
        found, _ = judge_cost(obj['case'], obj['targets'],
                              obj.get('extra_points', []),
                              obj.get('broken', {}))
        if obj.get('stale'):
            found += _stale_structure(obj['case'])
        for s, w in found[:6]:
            print(f'  {s}: {w[:300]}')
        return not found
    if obj['kind'] == 'inst':
        f, label = check_instantiate(obj['case'], obj['target'],
                                     obj['config'], obj['starts'],
                                     obj['path'])
        print(f'  outcome: {label}')
        for s, w in f[:6]:
            print(f'  {s}: {w[:300]}')
        return not f
    raise ValueError(obj['kind'])
