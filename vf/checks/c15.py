"""C15 -- scheduler book-keeping stays in bounds and assigns every task
exactly once (E1: counters monitored after every scheduler step)."""
from __future__ import annotations

import time

from vf import explore
from vf import judges
from vf.checks import c07
from vf.checks import c12
from vf.common import Ctx
from vf.scenarios import TOPOS, TREES, L

LEVEL = 'model_checking'

# fan-outs 1..4 against 1..3 workers: batches smaller than, equal to and
# larger than the number of idle workers
FAN = {
    'fan1': ['map', [L(1)]],
    'fan2': ['map', [L(1), L(2)]],
    'fan3': ['map', [L(1), L(2), L(3)]],
    'fan4': ['map', [L(1), L(2), L(3), L(4)]],
    'fan2x2': ['map', [['map', [L(1), L(2)]], ['map', [L(3), L(4)]]]],
    'seqfan': ['seq', [['map', [L(1), L(2)]], ['map', [L(3), L(4), L(5)]]]],
}


def spec(topo: str, name: str, tree: list, cancel: bool = False) -> dict:
    # no close(): the system falls idle and its beliefs can be compared with
    # the ground truth held by the simulated workers
    return {'name': f'{topo}/{name}', 'topo': TOPOS[topo],
            'clients': [[['compile', tree]]], 'has_cancel': cancel,
            'monitor': 'c15'}


def plan(ctx: Ctx) -> list:
    q = ctx.quick
    topos = ['a1', 'a2', 'a3', 'd2', 'd11'] + ([] if q else ['a4', 'd21',
                                                               'd22'])
    names = list(FAN) + ['rev2', 'nest', 'mapnext3']
    trees = {**FAN, **{k: TREES[k] for k in ('rev2', 'nest', 'mapnext3')}}
    P = [('world/deviation<=1',
          [spec(tp, n, trees[n]) for tp in topos for n in names],
          1, 'deviation', 110 if q else 900)]
    ctrees = ['cancel-noawait', 'cancel-parent', 'mapcancel3',
              'seq-cancel-then-work']
    P.append(('world/cancel/deviation<=1',
              [spec(tp, n, c12.CTREES[n], True)
               for tp in (['a2', 'a3'] if q else ['a1', 'a2', 'a3', 'd11'])
               for n in ctrees],
              1, 'deviation', 50 if q else 600))
    # the worker's two threads at source-line granularity *inside* a world
    # with a real server: recv_incoming's SUBMIT/SUBMIT_BATCH handling (task
    # enqueue + read receipt) against the main thread's "nothing left, send
    # WAITING" step around read_receipt_mutex, judged by the server's counters
    from vf.scenarios import line_funcs

    def lspec(tp: str, n: str) -> dict:
        d = spec(tp, n, trees[n])
        d['name'] += '/line-w0'
        d['line'] = ['w0']
        d['line_funcs'] = line_funcs()
        return d
    lw = [('a1', 'fan1'), ('a1', 'fan2')] if q else \
        [('a1', 'fan1'), ('a1', 'fan2'), ('a2', 'fan1'), ('d11', 'fan1'),
         ('a2', 'fan2')]
    P.append(('world+worker-lines/preempt<=1',
              [lspec(tp, n) for tp, n in lw],
              1, 'preemption', 60 if q else 1500))
    small = [('a2', 'fan3'), ('a2', 'fan2x2')]
    if not q:
        small = [(tp, n) for tp in ('a1', 'a2', 'a3', 'd11', 'd2')
                 for n in ('fan2', 'fan3', 'fan4', 'fan2x2', 'seqfan')]
    P.append(('world/deviation<=2',
              [spec(tp, n, trees[n]) for tp, n in small],
              2, 'deviation', 90 if q else 2400))
    return P


def run(ctx: Ctx) -> None:
    c07.run(ctx, judge='c15', plan_fn=plan)


def replay(ctx: Ctx, obj: dict) -> bool:
    return c07.replay(ctx, obj)
