"""C17 — OpenQASM 2 import/export preserves the program and agrees with Qiskit.

Bounded-exhaustive translation validation (DESIGN 3.C17):

 A. round trip   decode(encode(c)) for every circuit of <=2 operations
                 (thorough: 3) on <=3 qubits over every exported gate that
                 claims a QASM spelling, every ordered location, parameter
                 grid; oracle = numpy embedding of the gate matrices.
 B. programs     every program of a bounded OpenQASM 2 grammar compared with
                 qiskit.qasm2.loads + Operator (bit order reversed, global
                 phase free, measure/reset/barrier stripped on both sides).
 C. translators  bqskit <-> qiskit / cirq / pytket on the round-trip set,
                 each judged by the library's own simulator.

Every disagreement is re-run and minimised in the worker before it is
reported (coverage.disagreements_checked).
"""
from __future__ import annotations

import collections
import multiprocessing as mp
import os
import resource
import time

from vf import c17_lib as L
from vf import c17_work as W
from vf.common import Ctx
from vf.common import HarnessError

LEVEL = 'translation_validation'

QUICK_LEAVES = ('pi', '2', '1e-1')
QUICK_CORE = ('pi', '2')
FULL_LEAVES = ('pi', '2', '0.5', '1e-1', '3')


def _imports(with_cirq: bool) -> None:
    """Load the heavy third-party packages once in the parent, so that every
    pool inherits them through fork (qiskit ~5 s, cirq ~12 s of CPU)."""
    L.qk()
    import bqskit.ext  # noqa: F401
    import pytket.qasm  # noqa: F401
    from qiskit.circuit.library.standard_gates import \
        get_standard_gate_name_mapping  # noqa: F401
    if with_cirq:
        import cirq  # noqa: F401
        import cirq.contrib.qasm_import  # noqa: F401


def _warmup(libs: tuple) -> None:
    """Run one small case of every kind in the parent: whatever the code
    under test and the oracles import or build lazily on first use (Lark
    tables, Qiskit gate library, ply tables ...) is then inherited by every
    forked worker instead of being paid again in each of them."""
    W.work(('e2', QUICK_LEAVES, 1, '^', 0, 9, None))
    W.work(('gd1', 0, 200))
    W.work(('shadow',))
    ops = [['CNOTGate', [0, 1], []], ['RXGate', [0], [0.3]]]
    L.run_rt(2, ops)
    L.run_rt(1, [['SqrtTGate', [0], []]])
    for lib in libs:
        L.run_tr(lib, 2, ops)
    L.run_trq('cx', [0, 1], 3, 0)
    L._DIFF_CACHE.clear()


class _Workers:
    """One pool of forked workers for the whole run.

    Forking a process that has qiskit/bqskit/scipy loaded costs every child
    seconds of copy-on-write page faults on its first task, so the pool is
    created once (after the imports) instead of once per stage."""

    def __init__(self, procs: int) -> None:
        self.procs = max(1, procs)
        self.pool = None
        if self.procs > 1:
            self.pool = mp.get_context('fork').Pool(self.procs)

    def run(self, tasks: list, deadline: float | None, chunksize: int):
        args = [(t, deadline) for t in tasks]
        if self.pool is None:
            for a in args:
                yield W.guarded(a)
        else:
            yield from self.pool.imap_unordered(W.guarded, args,
                                                chunksize=chunksize)

    def close(self) -> None:
        if self.pool is not None:
            self.pool.terminate()
            self.pool.join()


_WORKERS: _Workers | None = None


def _stage(ctx: Ctx, name: str, tasks: list, total: dict,
           budget: float | None = None, chunksize: int = 1) -> list:
    """Run tasks on the pool, merge into `total`, record a part."""
    t0 = time.time()
    if budget is not None:
        # VERIF_C17_CAPSCALE shrinks every cap (dry runs of the orchestration)
        budget = budget * float(os.environ.get('VERIF_C17_CAPSCALE', '1'))
    deadline = None if budget is None else t0 + budget
    part = W.new_result(name)
    extra = []
    done = 0
    assert _WORKERS is not None
    # small chunks keep the time cap sharp, yet skipping thousands of
    # overdue tasks must not cost one pipe round trip each
    chunksize = max(chunksize, len(tasks) // (_WORKERS.procs * 16))
    for status, res in _WORKERS.run(tasks, deadline, chunksize):
        if status == 'skipped':
            continue
        if status != 'ok':
            raise HarnessError(res)
        done += 1
        W.merge(part, res)
        if 'failing' in res:
            extra.extend(res['failing'])
    if done < len(tasks):
        ctx.cap(f'{name}: time cap {budget}s reached after {done} of '
                f'{len(tasks)} slices of the canonical order')
    keep = part['samples'][:1]
    part['samples'] = []
    W.merge(total, part)
    total['samples'].extend(keep)
    ctx.part(
        name, cases=part['evals'], compared=part['programs'],
        nontrivial=part['nontrivial'], slices_done=done,
        slices_total=len(tasks), disagreements_checked=part['checked'],
        not_reproducible=part['flaky'],
        outcomes=dict(sorted(part['out'].items())),
        skipped_by_rule=dict(sorted(part['skipped'].items())),
        seconds=round(time.time() - t0, 1),
        worker_cpu_seconds=round(part['cpu'], 1),
    )
    return sorted(set(extra))


def run(ctx: Ctx) -> None:
    quick = ctx.quick
    total = W.new_result('all')
    # cirq's importer costs ~12 s to load and ~0.1 s per program: thorough only
    libs = ('qiskit', 'pytket') if quick else W.LIBS
    t_imp = time.time()
    _imports(with_cirq=not quick)
    L.registry()
    _warmup(libs)
    global _WORKERS
    _WORKERS = _Workers(ctx.procs)
    ctx.part('setup', import_seconds=round(time.time() - t_imp, 1),
             translator_libraries=list(libs))
    try:
        _run(ctx, total, libs)
    finally:
        _WORKERS.close()
        _WORKERS = None
        ru = [resource.getrusage(w) for w in
              (resource.RUSAGE_SELF, resource.RUSAGE_CHILDREN)]
        ctx.part('setup', cpu_seconds=round(
            sum(r.ru_utime + r.ru_stime for r in ru), 1))


def _run(ctx: Ctx, total: dict, libs: tuple) -> None:
    seed = ctx.seed
    quick = ctx.quick
    reg = L.registry()
    info = L.registry_info()
    missing = [k for k in W.REDUCED_RT if k not in reg]
    if missing:
        raise HarnessError(f'reduced alphabet names unknown gates: {missing}')

    # ------------------------------------------------------------ A
    tasks = [('rt1', n, seed, c, 8) for n in (3, 2, 1) for c in range(8)]
    tasks += [('rt1', n, seed, 0, 1) for n in (4, 5)]
    failing = _stage(ctx, 'roundtrip-single-ops', tasks, total)
    excluded = tuple(failing)
    keys = W.rt_keys(excluded)
    # two operations on 1 and 2 qubits: all ordered pairs, both parameter
    # variants, in both tiers
    tasks = []
    for n in (1, 2):
        P = L.placed_ops(n, keys)
        tasks += [('rt2', n, i, excluded, True, seed, 'full')
                  for i in range(len(P))]
    _stage(ctx, 'roundtrip-two-ops-1-2-qubits', tasks, total)
    # 3 qubits: quick pairs every gate (second) with the reduced alphabet
    # (first); thorough runs all ordered pairs with both parameter variants
    if quick:
        red = [k for k in W.REDUCED_RT if k not in excluded]
        P = L.placed_ops(3, red)
        tasks = [('rt2', 3, i, excluded, False, seed, 'reduced')
                 for i in range(len(P))]
    else:
        P = L.placed_ops(3, keys)
        tasks = [('rt2', 3, i, excluded, True, seed, 'full')
                 for i in range(len(P))]
    _stage(ctx, 'roundtrip-two-ops-3-qubits', tasks, total,
           budget=None if quick else 240)
    if not quick:
        tasks = []
        P = L.placed_ops(1, keys)
        tasks += [('rt3', 1, i, j, 'full', excluded, seed)
                  for i in range(len(P)) for j in range(len(P))]
        red = [k for k in W.REDUCED_RT if k in reg and k not in excluded]
        P = L.placed_ops(3, red)
        tasks += [('rt3', 3, i, j, 'reduced', excluded, seed)
                  for i in range(len(P)) for j in range(len(P))]
        P = L.placed_ops(2, keys)
        tasks += [('rt3', 2, i, j, 'full', excluded, seed)
                  for i in range(len(P)) for j in range(len(P))]
        _stage(ctx, 'roundtrip-three-ops', tasks, total, budget=420,
               chunksize=8)
    ctx.part(
        'roundtrip-alphabet', gates_with_spelling=len(reg),
        keys=sorted(reg), exported_without_spelling=info['no_spelling'],
        not_constructed=info['unconstructed'],
        unreadable_alone_dropped_from_sequences=list(excluded),
    )
    rt_cases = total['evals']

    # ------------------------------------------------------------ B
    leaves = QUICK_LEAVES if quick else FULL_LEAVES
    tasks = [('num',), ('misc',), ('shadow',), ('e01', FULL_LEAVES)]
    # depth-2 expressions whose left operand is a leaf ("2^-2", "2*(2+pi)",
    # "pi/sin(2)" ...) always complete; the rest runs under a time cap below
    tasks += [('e2', leaves, ai, op, 0, 1, None) for ai in range(len(leaves))
              for op in L.BINOPS]
    tasks += [('gd1', i, 16) for i in range(16)]
    for lay in W.LAYOUTS:
        for creg in (('none', 'last') if quick
                     else ('none', 'first', 'middle', 'last')):
            if creg == 'middle' and len(lay) < 2:
                continue
            tasks.append(('b1', lay, creg, seed))
    for lay in W.WIDE_LAYOUTS + W.EXTRA_LAYOUTS:
        tasks.append(('b1', lay, 'none', seed))
    _stage(ctx, 'programs-single-statements', tasks, total)

    tasks = []
    for lay in W.LAYOUTS[1:]:
        nA = len(W.seq_alphabet(lay, seed, False))
        tasks += [('b2', lay, (i,), False, seed) for i in range(nA)]
    _stage(ctx, 'programs-two-statements', tasks, total,
           budget=None if quick else 120)
    if not quick:
        tasks = []
        for lay in W.LAYOUTS[2:]:
            nA = len(W.seq_alphabet(lay, seed, True))
            tasks += [('b2', lay, (i, j), True, seed)
                      for i in range(nA) for j in range(nA)]
        _stage(ctx, 'programs-three-statements', tasks, total, budget=240)

    nO = len(L.operands(list(leaves)))
    # quick: both operands composite only over the core leaves {pi, 2}
    core = QUICK_CORE if quick else None
    tasks = [('e2', leaves, ai, op, c, 3, core)
             for ai in range(len(leaves), nO)
             for op in L.BINOPS for c in range(3)]
    _stage(ctx, 'programs-expressions-depth-2', tasks, total,
           budget=None if quick else 240)

    nch = 8 if quick else 32
    tasks = [('gd2', k, m, quick, c, nch) for k, m in W.gd2_tasks()
             for c in range(nch)]
    tasks += [('gd3', ii, k2, m2, quick, c, nch)
              for ii, k2, m2 in W.gd3_tasks() for c in range(nch)]
    _stage(ctx, 'programs-gate-definitions', tasks, total,
           budget=None if quick else 120)
    prog_cases = total['evals'] - rt_cases

    # ------------------------------------------------------------ C
    ukeys = W.unitary_keys(excluded)
    tasks = [('tr1', lib, 3, k, excluded, seed)
             for k in ukeys for lib in libs]
    tasks += [('tr1', lib, reg[k]['nq'], k, (), seed)
              for k in sorted(reg) if reg[k]['nq'] > 3 for lib in libs]
    tasks += [('trq', name, seed) for name in L.qiskit_std_gates()]
    _stage(ctx, 'translators-single-ops', tasks, total,
           budget=None if quick else 120)
    # pairs: quick = reduced alphabet on 3 qubits; thorough = full, 2 qubits
    tag, n2 = ('reduced', 3) if quick else ('full', 2)
    k2 = [k for k in ukeys if (tag == 'full' or k in W.REDUCED_RT)]
    P = L.placed_ops(n2, k2)
    tasks = [('tr2', lib, n2, i, tag, excluded, seed, c, 4)
             for i in range(len(P)) for c in range(4) for lib in libs]
    _stage(ctx, 'translators-two-ops', tasks, total,
           budget=None if quick else 240)

    # un-judged observation (outside the statement: not part of the unitary)
    try:
        d = L.lang().decode(
            L.HDR + 'qreg q[2];\nqreg r[2];\ncreg c[2];\n'
            'measure r[1] -> c[0];\n')
        op = list(d)[0]
        ctx.part('notes', measure_on_second_register={
            'location': list(op.location),
            'placeholder_key': sorted(op.gate.measurements),
            're_encoded': [x for x in L.lang().encode(d).splitlines()
                           if x.startswith('measure')],
        })
    except Exception as e:   # observation only
        ctx.part('notes', measure_on_second_register=f'error: {e!r}')

    # ------------------------------------------------------- evidence
    cov = ctx.cov
    cov['evaluations'] = total['evals']
    cov['distinct_nontrivial'] = total['nontrivial']
    cov['programs'] = total['programs']
    cov['disagreements_checked'] = total['checked']
    cov['rejected_by_oracle'] = total['out'].get('prog:oracle-reject', 0)
    cov['roundtrip_circuits'] = rt_cases
    cov['grammar_programs_generated'] = prog_cases
    cov['skipped_by_rule'] = dict(sorted(total['skipped'].items()))
    cov['not_reproducible'] = total['flaky']
    cov['rule'] = (
        'Cases are enumerated exhaustively inside the stated bounds in a '
        'simplest-first canonical order; each enumerated case is distinct by '
        'construction (distinct gate/location/parameter tuples or distinct '
        'program texts). Non-trivial = round-trip circuit that contains a '
        'measure/reset/barrier placeholder or whose unitary is not the '
        'identity up to phase; program that Qiskit accepts and whose '
        'operator is not the identity up to phase. programs = program texts '
        '(and translator circuits) accepted by the independent '
        'implementation and compared with it. Quick tier: depth-2 expression '
        'texts over leaves {pi, 2, 1e-1} in which one operand is a leaf, plus '
        'all depth-2 texts over {pi, 2}; three-qubit two-operation circuits '
        'with the first operation from the reduced alphabet; the thorough '
        'tier lifts both restrictions. Expression skip rule (stated '
        'per reason in skipped_by_rule): any intermediate value not finite '
        'or >1e6 in magnitude, division by |x|<1e-12, ln(x<=0), sqrt(x<0), '
        'negative base with non-integer exponent, 0 to a non-positive '
        'power, tan where |cos|<1e-3. A disagreement is re-run and '
        'minimised (statements/definitions dropped, sub-expressions tried, '
        'single operations tried) before it is reported.'
    )
    # one written-out case per stage; prefer variety over the first six
    smp = total['samples']
    for s in (smp[1::2] + smp[0::2])[:6]:
        ctx.sample(s)
    for k, v in total['out'].items():
        ctx.outcomes[k] += v
    notes = total['notes']
    shadowed = sorted(k.split(':', 1)[1] for k in notes
                      if k.startswith('shadowed:'))
    ext = {k: v for k, v in notes.items() if ' rejects ' in k
           or k.startswith('qiskit cannot')}
    orc = collections.Counter()
    for k, v in notes.items():
        if k.startswith('oracle:'):
            orc[k[7:]] += v
    ctx.part('notes', builtin_names_shadowing_user_gates=shadowed,
             external_library_rejections=len(ext),
             external_rejection_examples=dict(sorted(ext.items())[:12]),
             oracle_rejection_reasons=dict(orc.most_common(8)))
    ctx.assumptions.extend([
        'Qiskit qasm2.loads (with LEGACY_CUSTOM_INSTRUCTIONS, i.e. what '
        'QuantumCircuit.from_qasm_str uses) and quantum_info.Operator define '
        'the meaning of an OpenQASM 2 program; little-endian bit order is '
        'undone with QuantumCircuit.reverse_bits().',
        'Gate matrices themselves (Gate.get_unitary) are trusted here; they '
        'are the subject of C18.',
        'A program Qiskit rejects is not evidence either way '
        '(rejected_by_oracle); an external library rejecting BQSKit-only '
        'gate names in a translator is not counted as a violation.',
    ])

    # report violations, simplest replay per signature, deterministic order
    for sig in sorted(total['viol'], key=lambda s: (total['viol'][s][1], s)):
        cnt, key, what, rep = total['viol'][sig]
        for _ in range(cnt):
            ctx.violation(sig, what, rep)


def replay(ctx: Ctx, obj: dict) -> bool:
    fam = obj['family']
    if fam == 'rt':
        st, d = L.run_rt(obj['n'], obj['ops'])
        print(f'round trip: {st} {d}')
        return st == 'ok'
    if fam == 'prog':
        st, d, _, _ = L.diff(obj['text'])
        print(obj['text'])
        print(f'differential: {st} {d}')
        return st in ('agree', 'oracle-reject')
    if fam == 'tr':
        st, d = L.run_tr(obj['lib'], obj['n'], obj['ops'])
        print(f'translator {obj["lib"]}: {st} {d}')
        return st in ('ok', 'external-reject')
    if fam == 'trq':
        st, d = L.run_trq(obj['gate'], obj['loc'], obj['n'], ctx.seed)
        print(f'qiskit library gate {obj["gate"]}: {st} {d}')
        return st in ('ok', 'external-reject')
    raise ValueError(fam)
