"""C05 - all views of a Circuit stay mutually consistent after every edit.

Same traversal as C04 (vf/histbfs.py + vf/c04_model.py); oracle emphasis: the
view invariant (check_views) on every distinct reached state through the
public read API, the drain probe, and "no valid call fails with an internal
error" on every transition.
"""
from __future__ import annotations

from vf.c04_run import replay as _replay
from vf.c04_run import run_search
from vf.common import Ctx

LEVEL = 'model_checking'


def run(ctx: Ctx) -> None:
    run_search(ctx, 'C05')
    ctx.assumptions.append(
        'states are merged by a key made of the public views plus the edge '
        'multiplicities (c04_model.hidden_digest); the latter is never judged')


def replay(ctx: Ctx, obj: dict) -> bool:
    return _replay(ctx, obj, 'C05')
