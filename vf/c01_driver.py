"""Common driver of the C01 / C02 / C03 checks: schedule one compile per work
item, collect the judged records, confirm failures before reporting them."""
from __future__ import annotations

import collections
import os
import time
from typing import Any, Callable

from vf import c01_cases as K
from vf import c01_oracle as O
from vf.common import Ctx
from vf.common import pmap


def est_cost(case: dict) -> float:
    """Rough relative cost, used only to start long compiles first (the
    set of cases and every verdict are independent of it)."""
    s = case['input']
    c = {1: 1.0, 2: 2.0, 3: 12.0, 4: 60.0}[case['level']]
    if s['kind'] == 'circuit':
        if any(K.gate(op[0]).num_qudits > 2 for op in s['ops']):
            c *= 25
        c *= 1 + 0.3 * len(s['ops'])
        if s['n'] >= 4:
            c *= 3
    elif s['kind'] == 'list':
        c *= 2 * len(s['items'])
    else:
        gen = s.get('gen') or s.get('u')
        n = {'toffoli': 3, 'fredkin': 3}.get(gen[0])
        if n is None:
            if gen[0] in ('qft', 'ghz', 'w'):
                n = gen[1]
            elif gen[0] in ('generic', 'identity', 'basis', 'plus', 'nearid'):
                n = gen[1]
            elif gen[0] == 'perm':
                n = {2: 1, 4: 2, 8: 3, 16: 4}[len(gen[1])]
            elif gen[0] in ('qperm', 'qperm_cx'):
                n = len(gen[1])
            else:
                n = 2
        c *= {1: 0.3, 2: 1.0, 3: 25.0, 4: 400.0}.get(n, 1.0)
    return c


def short(case: dict) -> str:
    s, m = case['input'], case.get('model')
    if s['kind'] == 'circuit':
        body = ' '.join(
            op[0] + '(' + ','.join(map(str, op[1])) + ')' for op in s['ops']
        ) or 'empty'
        extra = ''.join(
            f' +{k}={s[k]}' for k in ('barrier', 'measure', 'blocked')
            if k in s
        )
        inp = f'circuit[{s["n"]}x{s.get("d", 2)}: {body}{extra}]'
    elif s['kind'] == 'list':
        inp = 'list[' + '; '.join(
            short({'input': x, 'level': 0}).split(' -> ')[0]
            for x in s['items']
        ) + ']'
    elif s['kind'] == 'system':
        inp = f'system[{s["u"]} k={s["k"]}]'
    else:
        inp = f'{s["kind"]}[{s["gen"]}]'
    ms = 'model=None' if m is None else (
        f'model[{m["name"]} n={m["n"]} edges={len(m["edges"])} '
        f'{"+".join(m["gates"])}]'
    )
    return (f'{inp} -> {ms} level={case["level"]} '
            f'mss={case.get("mss", 3)} eps={case.get("eps", 1e-8)}')


class Finding:
    def __init__(self, sig: str, what: str, numeric: bool = False,
                 dist: float = 0.0) -> None:
        self.sig, self.what, self.numeric, self.dist = sig, what, numeric, dist


Judge = Callable[[dict, dict], list]


def explore(
    ctx: Ctx, cases: list, judge: Judge, deadline_s: float,
    use_cache: bool = True, rule: str = '',
) -> dict:
    """Run every case (one compile per pmap item), judge, confirm, report.

    Returns {case_key: record}.  `cases` is in canonical simplest-first
    order; that order decides which counterexample represents a signature.
    """
    order = {K.stable_hash(c): i for i, c in enumerate(cases)}
    # Cheapest first (stable: canonical order among equals), so that a time
    # cap cuts the expensive tail and never the simple cases; the few most
    # expensive compiles start at once on a quarter of the workers so they
    # do not form a long tail.  Verdicts do not depend on this order.
    asc = sorted(cases, key=est_cost)
    k = max(1, ctx.procs // 4)
    heavy = asc[-k:][::-1] if len(asc) > 8 * k else []
    sched = heavy + asc[:len(asc) - len(heavy)]
    # VERIF_DEADLINE=<seconds> overrides the tier's time cap (slow or
    # heavily shared machines)
    deadline_s = float(os.environ.get('VERIF_DEADLINE', deadline_s))
    deadline = time.time() + deadline_s
    done: dict = {}
    status = collections.Counter()
    secs = 0.0
    cpu = 0.0
    worst = 0.0
    cached = 0
    for case, rec in pmap(
        K.run_case, [(c, ctx.seed, ctx.tier, use_cache) for c in sched],
        procs=ctx.procs, deadline=deadline,
    ):
        key = K.stable_hash(case)
        done[key] = (case, rec)
        status[rec['status']] += 1
        secs += rec.get('secs', 0.0)
        cpu += rec.get('cpu', 0.0)
        cached += 1 if rec.get('cached') else 0
    missing = [c for c in cases if K.stable_hash(c) not in done]
    if missing:
        ctx.cap(
            f'time cap {deadline_s:.0f}s: {len(missing)} of {len(cases)} '
            f'cases not run; the simplest skipped one is: {short(missing[0])}',
        )
    n_to = status.get('timeout', 0)
    if n_to:
        first = next(c for c in cases if K.stable_hash(c) in done
                     and done[K.stable_hash(c)][1]['status'] == 'timeout')
        ctx.cap(f'{n_to} compiles exceeded the per-case limit of '
                f'{K.time_limit(ctx.tier)} CPU-seconds and were abandoned (counted as '
                f'caps, not judged); first: {short(first)}')

    # ---------------------------------------------------------- coverage
    ctx.cov['evaluations'] = len(done)
    ctx.cov['rule'] = rule
    ctx.cov['compile_seconds_total'] = round(secs, 1)
    ctx.cov['compile_cpu_seconds_ok_cases'] = round(cpu, 1)
    ctx.cov['cache_hits'] = cached
    ctx.cov['tree_hash'] = K.tree_hash()
    nontriv = set()
    branch = collections.Counter()
    for key, (case, rec) in done.items():
        if rec['status'] in ('ok', 'crash') and K.nontrivial(case):
            nontriv.add(key)
        for b in K.branches(case):
            branch[b] += 1
        ctx.outcomes[outcome_label(rec)] += 1
    ctx.cov['distinct_nontrivial'] = len(nontriv)
    ctx.part('status', **dict(status))
    ctx.part('branches', **dict(sorted(branch.items())))

    # ---------------------------------------------------------- judging
    found: dict = collections.defaultdict(list)
    for key in sorted(done, key=lambda k: order[k]):
        case, rec = done[key]
        if rec['status'] == 'ok':
            recs = rec['items'] if 'items' in rec else [rec]
            for r in recs:
                if 'dist' in r:
                    worst = max(worst, r['dist'] / max(r['budget'], 1e-300))
        for f in judge(case, rec):
            found[f.sig].append((case, rec, f))
    ctx.cov['worst_distance_over_budget'] = float(f'{worst:.3g}')
    confirm(ctx, found, judge)
    return {k: v for k, v in done.items()}


def outcome_label(rec: dict) -> str:
    st = rec['status']
    if st == 'crash':
        return 'crash:' + rec['sig']
    if st != 'ok':
        return st
    if 'items' in rec:
        return f'ok:list{rec.get("n_results")}'
    gates = '+'.join(sorted(rec.get('gates_out', {}))) or 'empty'
    ident = (rec.get('pi') == rec.get('pf')
             == list(range(len(rec.get('pi', [])))))
    return f'ok:w{rec.get("width")}:{gates}:{"id" if ident else "perm"}'


def confirm(ctx: Ctx, found: dict, judge: Judge) -> None:
    """Re-run the simplest counterexample(s) of every signature before
    reporting: twice with the same seed (must fail both times with the same
    signature) and, for numerical findings, with two other seeds (report
    only if it fails for all three seeds or the distance is semantic,
    > 1e-3).  Everything else is counted in evidence as an optimiser miss /
    non-reproducible observation."""
    if not found:
        return
    jobs: list = []
    plan: list = []
    for sig in sorted(found):
        for case, rec, f in found[sig][:1]:
            # structural findings (crash, non-native gate, width, measurement
            # table): one re-run; numerical ones: two, plus two other seeds
            seeds = [ctx.seed]
            if f.numeric:
                seeds.append(ctx.seed)
                if f.dist <= O.SEMANTIC:
                    seeds += [ctx.seed + 1, ctx.seed + 2]
            plan.append((sig, case, rec, f, seeds))
            for s in seeds:
                jobs.append((case, s, ctx.tier, False))
    results: dict = collections.defaultdict(list)
    deadline = time.time() + 1500
    for (case, seed), rec in pmap(_rerun, jobs, procs=ctx.procs,
                                  deadline=deadline):
        results[(K.stable_hash(case), seed)].append(rec)
    reported: set = set()
    for sig, case, rec, f, seeds in plan:
        if sig in reported:
            continue
        key = K.stable_hash(case)
        same = results.get((key, ctx.seed), [])
        same_fail = [
            any(g.sig == sig for g in judge(case, r)) for r in same
        ]
        others = [
            any(g.sig == sig for g in judge(case, r))
            for s in seeds if s != ctx.seed
            for r in results.get((key, s), [])[:1]
        ]
        need = sum(1 for s in seeds if s == ctx.seed)
        reproduced = len(same_fail) >= need and all(same_fail)
        if not reproduced:
            ctx.add('not_reproduced_on_rerun')
            ctx.part('unconfirmed', **{sig: 1})
            continue
        if f.numeric and f.dist <= O.SEMANTIC and not (
            len(others) == 2 and all(others)
        ):
            ctx.add('optimizer_misses')
            ctx.part('optimizer_misses', **{sig: 1})
            continue
        reported.add(sig)
        n = len(found[sig])
        ctx.violation(
            sig, f'{f.what} | input: {short(case)} | {n} case(s) with this '
            'signature in this run',
            {'case': case, 'seed': ctx.seed, 'signature': sig,
             'observed': _brief(rec)},
        )
        for _ in range(n - 1):
            ctx.violation(sig, f.what, None)


def _rerun(job: tuple) -> tuple:
    case, seed, tier, _ = job
    return (case, seed), K.run_fresh(case, seed, tier)


def _brief(rec: dict) -> dict:
    keep = ('status', 'sig', 'width', 'radixes', 'pi', 'pf', 'gates_out',
            'dist', 'leak', 'budget', 'meas', 'exec', 'fits', 'compat',
            'maps_ok', 'n_results', 'why')
    out = {k: rec[k] for k in keep if k in rec}
    if 'tb' in rec and rec['status'] == 'crash':
        out['traceback_tail'] = rec['tb'][-700:]
    if 'items' in rec:
        out['items'] = [_brief(r) for r in rec['items']]
    return out


def replay_case(ctx: Ctx, obj: Any, judge: Judge) -> bool:
    case, sig = obj['case'], obj.get('signature')
    seed = obj.get('seed', ctx.seed)
    rec = K.run_fresh(case, seed, 'thorough')
    fs = judge(case, rec)
    print('replay:', short(case))
    print('record:', _brief(rec))
    for f in fs:
        print('finding:', f.sig, '--', f.what)
    return not fs
