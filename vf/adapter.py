"""The only place that reads private attributes of the runtime classes.

C12 (table emptiness) and C15 (scheduler counters) are properties *about*
internal tables, so they have to be read; after a refactor a missing
attribute surfaces here as HarnessError (exit 2), never as a violation.
"""
from __future__ import annotations

from typing import Any

from vf.common import HarnessError


def _get(o: Any, name: str) -> Any:
    try:
        return getattr(o, name)
    except AttributeError as e:
        raise HarnessError(f'adapter: {type(o).__name__} has no {name}') from e


def worker_tables(w: Any) -> dict:
    tasks = _get(w, '_tasks')
    boxes = _get(w, '_mailboxes')
    ready = _get(w, '_ready_task_ids')
    return {
        'id': _get(w, '_id'),
        'tasks': sorted(tuple(a) for a in tasks.keys()),
        'task_names': {
            tuple(a): (getattr(t, '_name', '?'),
                       [tuple(b) for b in t.breadcrumbs])
            for a, t in tasks.items()
        },
        'delayed': [tuple(t.return_address) for t in _get(w, '_delayed_tasks')],
        'delayed_crumbs': [
            [tuple(b) for b in t.breadcrumbs]
            for t in _get(w, '_delayed_tasks')
        ],
        'mailboxes': {
            k: (b.num_results, b.expected_num_results,
                None if b.dest_addr is None else tuple(b.dest_addr))
            for k, b in boxes.items()
        },
        'ready': [tuple(a) for a in list(getattr(ready, 'd', []))],
        'cancelled': sorted(tuple(a) for a in _get(w, '_cancelled_task_ids')),
        'active': None if _get(w, '_active_task') is None
        else tuple(_get(w, '_active_task').return_address),
    }


def server_tables(s: Any) -> dict:
    emps = _get(s, 'employees')
    out = {
        'running': _get(s, 'running'),
        'employees': [
            (e.id, e.num_tasks, e.num_idle_workers, e.total_workers,
             len(e.submit_cache))
            for e in emps
        ],
        'num_idle_workers': getattr(s, 'num_idle_workers', None),
        'total_workers': getattr(s, 'total_workers', None),
        'outgoing': len(getattr(_get(s, 'outgoing'), 'd', [])),
    }
    if hasattr(s, 'mailboxes'):
        out['mailboxes'] = {
            k: (b.result is not None, b.client_waiting)
            for k, b in s.mailboxes.items()
        }
        out['tasks'] = {str(k): v[0] for k, v in s.tasks.items()}
        out['mailbox_to_task'] = {k: str(v) for k, v in
                                  s.mailbox_to_task_dict.items()}
        out['clients'] = sorted(
            sorted(str(t) for t in ts) for ts in s.clients.values()
        )
        out['n_clients'] = len(s.clients)
    return out


def fingerprint(world: Any) -> int:
    """Canonical hash of the whole world for *counting* distinct states
    (never used to prune the search)."""
    S = world.S
    parts: list = []
    for n in sorted(S.T):
        t = S.T[n]
        if t.alive and not t.killed:
            lab = t.label if isinstance(t.label, (int, str, float)) else None
            parts.append((n, t.kind, lab, t.wake_at is not None))
    for c in world.conns:
        if c.inbox:
            parts.append((c.serial, tuple(s for _, s in c.inbox)))
        if c.closed or c.dead:
            parts.append((c.serial, c.closed, c.dead))
    for p in sorted(world.workers):
        w = world.workers[p]
        try:
            parts.append((
                p, tuple(sorted(tuple(a) for a in w._tasks)),
                tuple(sorted(
                    (k, b.num_results, b.dest_addr is None)
                    for k, b in w._mailboxes.items()
                )),
                tuple(tuple(a) for a in getattr(w._ready_task_ids, 'd', ())),
                tuple(tuple(t.return_address) for t in w._delayed_tasks),
                len(w._cancelled_task_ids),
            ))
        except AttributeError as e:
            raise HarnessError(f'adapter.fingerprint: {e}') from e
    for n in sorted(world.nodes):
        s = world.nodes[n]
        parts.append((
            n, s.running,
            tuple((e.num_tasks, e.num_idle_workers, len(e.submit_cache))
                  for e in s.employees),
            getattr(s, 'num_idle_workers', None),
            tuple(sorted(getattr(s, 'mailboxes', {}))),
            len(getattr(s.outgoing, 'd', ())),
        ))
    return hash(tuple(parts))
