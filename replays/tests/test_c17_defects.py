"""Plain reproductions of the C17 defects found on the unchanged tree.

Each test asserts the *property* (so it fails while the defect exists and
passes once it is repaired).  Run: /venv/bin/python -m pytest -q this_file.
Only plain bqskit / qiskit calls; no part of the verification framework.
"""
from __future__ import annotations

import numpy as np
import pytest
from qiskit import qasm2
from qiskit.quantum_info import Operator

from bqskit.ir import Circuit
from bqskit.ir.gates import CircuitGate
from bqskit.ir.gates import DiagonalGate
from bqskit.ir.gates import FrozenParameterGate
from bqskit.ir.gates import MeasurementPlaceholder
from bqskit.ir.gates import MPRYGate
from bqskit.ir.gates import MPRZGate
from bqskit.ir.gates import PhasedXZGate
from bqskit.ir.gates import SqrtTGate
from bqskit.ir.gates import U3Gate
from bqskit.ir.lang.qasm2 import OPENQASM2Language

L = OPENQASM2Language()
HDR = 'OPENQASM 2.0;\ninclude "qelib1.inc";\n'


def roundtrip(gate, params):
    c = Circuit(gate.num_qudits)
    c.append_gate(gate, list(range(gate.num_qudits)), params)
    d = L.decode(L.encode(c))
    assert np.allclose(d.get_unitary(), c.get_unitary(), atol=1e-7)


@pytest.mark.parametrize(
    'gate,params', [
        (SqrtTGate(), []),                       # st
        (DiagonalGate(2), [0.1, 0.2, 0.3]),      # diag
        (PhasedXZGate(), [0.1, 0.2, 0.3]),       # pxz: table says 1 param
        (MPRYGate(2), [0.1, 0.2]),               # mpry
        (MPRZGate(2), [0.1, 0.2]),               # mprz
    ],
)
def test_gate_encoding_can_be_read_back(gate, params):
    roundtrip(gate, params)


def test_circuitgate_with_frozen_parameter_reads_back():
    inner = Circuit(1)
    inner.append_gate(FrozenParameterGate(U3Gate(), {1: 0.3}), 0, [0.1, 0.2])
    roundtrip(CircuitGate(inner), [0.1, 0.2])


def test_two_measurements_read_back():
    c = Circuit(2)
    for q in (0, 1):
        c.append_gate(MeasurementPlaceholder([('c', 2)], {q: ('c', q)}), q)
    L.decode(L.encode(c))       # 'Classical register redeclared: c.'


def agree(body: str, regs: str = 'qreg q[1];\n'):
    text = HDR + regs + body
    qc = qasm2.loads(text, custom_instructions=qasm2.LEGACY_CUSTOM_INSTRUCTIONS)
    K = Operator(qc.reverse_bits()).data
    B = L.decode(text).get_unitary().numpy
    assert 1 - abs(np.trace(B.conj().T @ K)) / len(K) < 1e-10


@pytest.mark.parametrize(
    'body', [
        'rx(sqrt(0.5)) q[0];\n',                  # NameError
        'rx(exp(0.5)) q[0];\n',                   # parse error
        'rx(-(2+2)) q[0];\n',                     # parentheses ignored
        'rx(2*(3+pi)) q[0];\n',                   # parentheses ignored
        'gate g(a) x { rx(a^2) x; }\ng(-0.7) q[0];\n',   # pasted as text
        'u0(1) q[0];\n',                          # qelib1 u0 has 1 parameter
    ],
)
def test_program_agrees_with_qiskit(body):
    agree(body)


def test_user_gate_named_like_builtin():
    agree('gate v a0 { h a0; t a0; }\nv q[0];\n')
