#!/bin/bash
# Offline setup: nothing to build (pure Python run by /venv/bin/python, which has
# BQSKit installed editable from /repo).  Verify the interpreter and imports.
set -e
cd "$(dirname "$0")"
mkdir -p evidence replays
/venv/bin/python -W ignore -c "import sys; sys.path.insert(0,'/verif'); import vf.common, bqskit, numpy, networkx, qiskit; print('setup ok', bqskit.__file__)"
