#!/venv/bin/python
"""usage: mk_mut_prompt.py <PROPERTY_ID> <worktree> [extra hint text]"""
import json, sys
pid, wt = sys.argv[1], sys.argv[2]
hint = sys.argv[3] if len(sys.argv) > 3 else ''
TESTS = {
 'C01': 'tests/compiler/compile tests/passes/mapping tests/passes/control tests/compiler/test_data.py',
 'C02': 'tests/compiler/compile tests/compiler/test_machine.py tests/compiler/test_gateset.py tests/passes/retarget',
 'C03': 'tests/compiler/compile tests/passes/synthesis tests/compiler/synthesis',
 'C04': 'tests/ir/circuit tests/ir/test_region.py tests/ir/test_point.py tests/ir/test_interval.py',
 'C05': 'tests/ir/circuit',
 'C06': 'tests/ir/circuit tests/qis/unitary tests/qis/state',
 'C07': 'tests/runtime tests/compiler/test_compiler.py',
 'C08': 'tests/passes/partitioning tests/passes/util',
 'C09': 'tests/passes/mapping tests/qis/test_graph.py',
 'C10': 'tests/passes/rules tests/passes/retarget tests/passes/processing tests/passes/synthesis tests/passes/util',
 'C11': 'tests/passes/control tests/compiler/test_data.py tests/compiler/test_compiler.py',
 'C12': 'tests/runtime tests/compiler/test_compiler.py tests/passes/control',
 'C13': 'tests/runtime tests/compiler/test_compiler.py',
 'C14': 'tests/runtime tests/compiler/test_compiler.py',
 'C15': 'tests/runtime tests/compiler/test_compiler.py',
 'C16': 'tests/ir/circuit tests/ir/gates tests/compiler/test_data.py tests/compiler/test_machine.py tests/qis/test_graph.py',
 'C17': 'tests/ir/lang tests/ext',
 'C18': 'tests/ir/gates tests/qis/unitary',
 'C19': 'tests/ir/opt tests/ir/circuit/test_instantiate.py tests/bqskitrs',
 'C20': 'tests/qis/test_graph.py tests/qis/test_permutation.py tests/qis/unitary tests/compiler/test_machine.py',
}
for l in open('/verif/properties.jsonl'):
    p = json.loads(l)
    if p['id'] == pid:
        break
t = open('/verif/tools/mut_prompt.txt').read()
quant = p['quantifier']['text'] + ' (anchored in: ' + ', '.join(p['anchors']['files']) + ')'
for k, v in {'{WT}': wt, '{ID}': pid, '{TITLE}': p['title'], '{STATEMENT}': p['statement'],
             '{QUANT}': quant, '{TESTS}': TESTS[pid] + ' (check which of these paths exist)', '{HINT}': hint}.items():
    t = t.replace(k, v)
print(t)
