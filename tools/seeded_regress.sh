#!/bin/bash
# usage: tools/seeded_regress.sh [ids...]   (default: every directory under seeded/)
# For every seeded property-breaking change: apply it to a scratch copy of
# /repo's package, run the quick check of the property it breaks (via
# VERIF_REPO, so /repo and the committed evidence are never touched) and
# report whether the check raised an alarm.  Evidence written by these runs is
# restored from git afterwards.
cd "$(dirname "$0")/.."
ids="$@"
[ -z "$ids" ] && ids=$(ls seeded)
mkdir -p /tmp/chk
for id in $ids; do
  prop=$(python3 -c "import json;print(json.load(open('seeded/$id/meta.json'))['property'])")
  D=/tmp/chk/sr_$id; rm -rf $D; mkdir -p $D
  cp -r /repo/bqskit $D/bqskit
  if ! (cd $D && patch -p1 -s < /verif/seeded/$id/patch.diff); then
    echo "$id $prop PATCH-DOES-NOT-APPLY"; rm -rf $D; continue
  fi
  t0=$(date +%s)
  VERIF_REPO=$D ./check $prop --tier ${TIER:-quick} > /tmp/chk/sr_$id.log 2>&1
  rc=$?
  t1=$(date +%s)
  nv=$(grep -c '^VIOLATION' /tmp/chk/sr_$id.log)
  first=$(grep -m1 '^# ' /tmp/chk/sr_$id.log | cut -c1-160)
  if [ $rc -eq 1 ] && [ $nv -gt 0 ]; then v=CAUGHT; elif [ $rc -eq 0 ]; then v=MISSED; else v="HARNESS-ERROR(rc=$rc)"; fi
  echo "$id $prop $v violations=$nv wall=$((t1-t0))s $first"
  rm -rf $D
  git checkout -q -- evidence/$prop.json 2>/dev/null
done
