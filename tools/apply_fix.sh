#!/bin/bash
# usage: tools/apply_fix.sh <name-without-extension> ...   (applies /verif/fixes/<name>.diff to /repo, commits with <name>.msg)
set -e
for n in "$@"; do
  d=/verif/fixes/$n.diff; m=/verif/fixes/$n.msg
  git -C /repo apply --check $d
  git -C /repo apply $d
  git -C /repo add -A bqskit
  git -C /repo commit -q -F $m
  echo "$n -> $(git -C /repo log --oneline | head -1)"
done
