#!/bin/bash
# usage: tools/try_mut.sh <patch.diff> <CHECK_ID> [tier]   -- run a check against /repo HEAD + patch (scratch copy)
set -e
P=$(realpath $1); ID=$2; TIER=${3:-quick}
D=/tmp/chk/$$; rm -rf $D; mkdir -p $D
cp -r /repo/bqskit $D/bqskit
(cd $D && patch -p1 -s < $P)
cd /verif
set +e
VERIF_REPO=$D ./check $ID --tier $TIER > /tmp/chk/$$.log 2>&1
RC=$?
set -e
grep -E "^# |^VIOLATION|^KNOWN|^\[C" /tmp/chk/$$.log | cut -c1-400 | head -20
echo "exit=$RC log=/tmp/chk/$$.log"
rm -rf $D
