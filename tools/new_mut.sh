#!/bin/bash
# usage: tools/new_mut.sh <name>   -> scratch worktree /tmp/mut/<name> at /repo HEAD
set -e
mkdir -p /tmp/mut
git -C /repo worktree add --detach /tmp/mut/$1 HEAD >/dev/null
mkdir -p /tmp/mut/$1/_out
echo /tmp/mut/$1
