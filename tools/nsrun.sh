#!/bin/bash
# Run a command in a private network namespace (own loopback): BQSKit tests that
# start runtime servers on the fixed ports 7472-7474 cannot collide with anyone else's.
exec unshare -n -- bash -c 'ip link set lo up; exec "$@"' _ "$@"
