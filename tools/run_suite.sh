#!/bin/bash
# Run BQSKit's pinned test suite in 7 parallel shards, each in a private network
# namespace (the tests start runtime servers on fixed ports).  Logs: /tmp/suite/*.log
mkdir -p /tmp/suite; rm -f /tmp/suite/*; cd /repo
NS=/verif/tools/nsrun.sh
for shard in "tests/compiler/compile" \
 "tests/compiler/synthesis tests/compiler/test_compiler.py tests/compiler/test_data.py tests/compiler/test_gateset.py tests/compiler/test_machine.py tests/compiler/test_registry.py" \
 "tests/ir/circuit" \
 "tests/ir/gates tests/ir/lang tests/ir/opt tests/ir/test_gate.py tests/ir/test_interval.py tests/ir/test_inverse.py tests/ir/test_iterator.py tests/ir/test_location.py tests/ir/test_operation.py tests/ir/test_point.py tests/ir/test_region.py tests/ir/test_structure.py" \
 "tests/passes" "tests/qis tests/utils tests/ext tests/bqskitrs tests/exec tests/test_conftest.py" "tests/runtime"; do
  n=$(echo "$shard" | md5sum | cut -c1-6)
  ( $NS /venv/bin/python -m pytest -ra -q -p no:cacheprovider --timeout=900 --continue-on-collection-errors $shard > /tmp/suite/$n.log 2>&1; echo "DONE rc=$? $shard" >> /tmp/suite/done ) &
done
wait
cat /tmp/suite/done; tail -qn 1 /tmp/suite/*.log
