#!/venv/bin/python
"""Regenerate /verif/MANIFEST.json from the table below.

A property is claimed only when its check module exists and it is listed in
READY; everything else goes to not_applicable with the reason "not built yet"
(to be replaced by a real reason or a check before the end).
"""
import json
import os
import sys

ROOT = os.path.dirname(os.path.dirname(os.path.abspath(__file__)))

READY = sys.argv[1:] if len(sys.argv) > 1 else None

T = {
 'C01': ('exploration', 'E3', '3.C01',
  'bounded-exhaustive enumeration of (circuit, model, level) through the real compile() workflow on an in-process real Worker; mapping-aware unitary oracle; a few whole compile() runs under every schedule within deviation <= 1 of the real runtime classes (E1 world)',
  'Every circuit up to the stated length over the stated gate alphabet x models x levels is compiled by the shipped workflow and judged by an independent numpy oracle (embed at initial mapping, read at final mapping, HS distance budget proportional to synthesis_epsilon). Exhaustive inside the bound; says nothing about larger circuits.',
  'numpy; one-worker zero-preemption runtime schedule (other schedules are C07); finite gate/parameter alphabet'),
 'C02': ('exploration', 'E3', '3.C02',
  'bounded-exhaustive enumeration of compile() inputs x models judged for executability + all (circuit, model) pairs on <=4 vertices for is_compatible',
  'All compile outputs of the C01/C03 scopes plus extra models are checked against an independent statement-level executability oracle; is_compatible is compared to that oracle on every small (circuit, model) pair.',
  'finite scope; oracle written from the property statement'),
 'C03': ('exploration', 'E3', '3.C03',
  'exhaustive run of a finite catalogue of unitaries/states/state systems x entanglers x levels through compile(); target-distance oracle',
  'Every member of the structured catalogue is synthesised by the shipped workflow and compared to its target in numpy; list inputs checked for order.',
  'catalogue is finite and structured, Haar-typical behaviour not decided; numpy'),
 'C04': ('model_checking', 'E2', '3.C04',
  'explicit-state breadth-first search over Circuit editing-call histories on the real object vs. a per-qudit timeline reference model',
  'All histories of public editing calls up to the stated depth over small qudit configurations, with arguments instantiated from the current state, each step compared with a boring reference model and with the unitary product; every explored trace is an execution of the implementation.',
  'numpy; canonical key = full public grid (argument in DESIGN 2.3)'),
 'C05': ('model_checking', 'E2', '3.C05',
  'explicit-state BFS over Circuit editing histories; consistency invariant evaluated through the public read API on every reached state',
  'Same state graph as C04; on every reached state all views (grid, links, counters, iteration) are recomputed from the grid and compared; every valid call is attempted from every state and internal errors are violations.',
  'public read API only; bounded depth/width'),
 'C06': ('exploration', 'E3', '3.C06',
  'bounded-exhaustive enumeration of small mixed-radix circuits x all location orders x parameter grid vs. explicit Kronecker reference',
  'All circuits up to 3 operations over radixes {2,3,4} with every ordered location are simulated by the library and by an independent numpy reference; parameter API and region iteration compared with values recomputed from the grid.',
  'numpy; finite parameter grid'),
 'C07': ('model_checking', 'E1', '3.C07',
  'stateless exploration of all thread interleavings (line granularity, preemption-bounded) and all message delivery orders (deviation-bounded) of the real runtime classes under a controlled scheduler',
  'The shipped Worker/Server/Manager/Compiler classes run in one process over an explorer-owned transport; every schedule within the bound is executed and judged against the expected value of the task tree.',
  'line-granularity interleavings; reliable FIFO channels; bounds stated in evidence'),
 'C08': ('exploration', 'E3', '3.C08',
  'bounded-exhaustive enumeration of small circuits x block sizes x every partitioner; per-qudit sequence oracle',
  'All circuits up to the stated size with 1/2/3-qudit gates, barriers, measurements and resets are partitioned by every partitioner and compared per qudit timeline after unfolding.',
  'finite scope; loop-back runtime'),
 'C09': ('exploration', 'E3', '3.C09',
  'bounded-exhaustive enumeration of connected coupling graphs x small circuits x SABRE parameter menu (+small PAM scope); exact mapping oracle',
  'Every connected labelled graph up to 4 vertices x every small circuit x parameter setting is placed, laid out and routed by the shipped passes and judged by the exact mapping-aware unitary oracle.',
  'numpy; finite scope'),
 'C10': ('exploration', 'E3', '3.C10',
  'per pass of a catalogue: bounded-exhaustive enumeration of its input domain x constructor options; unitary and postcondition oracle',
  'Each shipped transformation pass is run on all circuits of its small domain and compared by unitary (exact or threshold) and postcondition.',
  'finite scope and parameter grid; loop-back runtime'),
 'C11': ('exploration', 'E2/E3+E1', '3.C11',
  'exhaustive enumeration of (partitioned circuit, filters, body behaviour, scripted predicate sequences, nesting) vs. a reference interpreter; ParallelDo (ordered and pick_first) additionally under every schedule within a deviation bound of the real runtime classes (E1 world)',
  'ForEachBlockPass and the control passes are run on every combination in the bounded space and their invocation trace, output and PassData compared with a reference interpreter.',
  'finite scope; harness-defined logging passes'),
 'C12': ('model_checking', 'E1', '3.C12',
  'stateless exploration of message delivery orders and worker thread interleavings with cancel-bearing task trees on the real runtime classes',
  'Every schedule within the deviation bound of cancel-bearing scenarios is executed on the shipped classes; results, execution log order and table emptiness at quiescence are judged.',
  'as C07'),
 'C13': ('model_checking', 'E2+E1', '3.C13',
  'BFS over client-API call histories on a real DetachedServer with real Compiler clients vs. a per-task state machine; error trees under all delivery orders',
  'All client call histories up to the depth bound and all positions of a raising task under all schedules within the deviation bound are executed on the shipped classes.',
  'as C07; stub employees in part (a)'),
 'C14': ('fault_enumeration', 'E1', '3.C14',
  'enumeration of every crash point x victim x send-error kind over every explored schedule of the real runtime under the controlled scheduler',
  'For every schedule within the bound, every visible operation is a crash point for every worker/manager; the client must get an exception and the runtime must shut down.',
  'transport model: FIFO, EOF after drain, BrokenPipe/ConnectionReset on send-to-dead'),
 'C15': ('model_checking', 'E1', '3.C15',
  'stateless exploration of delivery orders with scheduler counters monitored after every step against ground truth',
  'All schedules within the deviation bound on flat and managed topologies with random.shuffle owned as a choice; counters and assignment uniqueness monitored at every step.',
  'as C07'),
 'C16': ('exploration', 'E2/E3', '3.C16',
  'every circuit state reached by the C04 history search + construction grids for gates/models/PassData/workflows through pickle/copy/become',
  'Round trips are checked on every distinct reachable circuit of the bounded history search and on finite construction grids.',
  'finite scope'),
 'C17': ('translation_validation', 'E3', '3.C17',
  "bounded-exhaustive enumeration of QASM-expressible circuits (round trip) and of programs of a bounded OpenQASM 2 grammar compared with Qiskit's qasm2 loader",
  'Every program of the bounded grammar is loaded by both implementations and the operators compared up to bit order and phase; every small circuit over every QASM-spelled gate is round-tripped.',
  'Qiskit qasm2 loader and Operator trusted'),
 'C18': ('exploration', 'E3', '3.C18',
  'exhaustive enumeration of every exported gate class x constructor grid x parameter grid against the gate contract',
  'Every concrete gate class with every grid construction and parameter point is checked for unitarity, gradient (central differences), inverse, calc_params/optimize, composition algebra, equality/hash and Qiskit matrices.',
  'finite grids; numpy, Qiskit matrices trusted'),
 'C19': ('exploration', 'E3', '3.C19',
  'bounded-exhaustive enumeration of circuits x parameter grid x target kinds x evaluation paths; scripted multi-start instantiation',
  'Costs, residuals and gradients are recomputed from the circuit unitary in numpy for every case; instantiate is checked for structure preservation and least-cost selection with a scripted start source.',
  'finite scope; native engines are under test'),
 'C20': ('exploration', 'E3', '3.C20',
  'exhaustive enumeration of all labelled graphs up to 5 (6) vertices x every listed method vs. networkx/brute force; all permutations x radixes',
  'Every labelled simple graph in the bound is checked for every listed CouplingGraph method against brute force / networkx; every permutation of up to 4 (5) qudits over radixes {2,3,4} for PermutationMatrix; Kronecker references for UnitaryMatrix/UnitaryBuilder.',
  'networkx, numpy trusted'),
}

NA_REASON = {}


def main() -> None:
    ready = READY
    if ready is None:
        path = os.path.join(ROOT, 'tools', 'ready.txt')
        ready = open(path).read().split() if os.path.exists(path) else []
    checks = []
    na = []
    for pid in sorted(T):
        lvl, eng, ref, tech, text, note = T[pid]
        mod = os.path.join(ROOT, 'vf', 'checks', pid.lower() + '.py')
        if pid in ready and os.path.exists(mod):
            checks.append({
                'property_id': pid,
                'quick_cmd': f'cd /verif && ./check {pid} --tier quick',
                'thorough_cmd': f'cd /verif && ./check {pid} --tier thorough',
                'evidence_file': f'/verif/evidence/{pid}.json',
                'replay_cmd_template': f'cd /verif && ./check {pid} --replay {{path}}',
                'engine': eng,
                'level_claimed': {'category': lvl, 'text': text,
                                  'design_ref': 'DESIGN.md ' + ref},
                'level_note': note,
                'technique': tech,
            })
        else:
            na.append({'property_id': pid, 'reason': NA_REASON.get(
                pid, 'check not built yet (work in progress; model checking applies, see DESIGN.md ' + ref + ')')})
    m = {
        'version': 1,
        'setup_cmd': 'cd /verif && ./setup.sh',
        'hooks': {
            'guard': 'BQSKIT_VERIF',
            'enable': 'none needed: all interception is done from the harness by rebinding module-level names (Thread, Queue, Lock, selectors, Client, Listener, Process, time, os, random) before the real constructors run; /repo carries no hook code',
            'baseline_off_cmd': 'cd /repo && /venv/bin/python -m pytest -ra -q -p no:cacheprovider --timeout=900 --continue-on-collection-errors',
            'source_commits': [],
            'add_only': True,
        },
        'engines': [
            {'name': 'E1', 'path': 'vf/sched.py, vf/world.py', 'serves_properties': ['C07', 'C12', 'C13', 'C14', 'C15', 'C01', 'C11'],
             'kind_free_text': 'controlled-thread scheduler + simulated transport running the real runtime classes; stateless DFS over choice sequences with preemption/deviation bounds'},
            {'name': 'E2', 'path': 'vf/histbfs.py', 'serves_properties': ['C04', 'C05', 'C16', 'C13', 'C11'],
             'kind_free_text': 'explicit-state BFS over operation histories of real objects with a reference model'},
            {'name': 'E3', 'path': 'vf/loopback.py, vf/checks/', 'serves_properties': ['C01', 'C02', 'C03', 'C06', 'C08', 'C09', 'C10', 'C17', 'C18', 'C19', 'C20'],
             'kind_free_text': 'bounded-exhaustive input enumeration against an independent reference, passes run on a real in-process Worker'},
        ],
        'checks': checks,
        'not_applicable': na,
        'notes': 'Entry point ./check <ID> --tier quick|thorough [--replay FILE]; known findings in known_findings.json; seeded property-breaking changes under seeded/.',
    }
    with open(os.path.join(ROOT, 'MANIFEST.json'), 'w') as f:
        json.dump(m, f, indent=1)
        f.write('\n')
    print('claimed:', [c['property_id'] for c in checks])


if __name__ == '__main__':
    main()
