#!/venv/bin/python
"""Add a 'fixed:' line to known_findings.json for every applied patch of /verif/fixes
(matched by commit subject), and merge fixes/known_*.json into 'known'."""
import glob, json, os, subprocess
root = '/verif'
kf = json.load(open(f'{root}/known_findings.json'))
log = subprocess.run(['git', '-C', '/repo', 'log', '--format=%h\t%s'], capture_output=True, text=True).stdout.splitlines()
bysubj = {l.split('\t', 1)[1]: l.split('\t', 1)[0] for l in log}
have = ' '.join(kf['fixed'])
for m in sorted(glob.glob(f'{root}/fixes/*.msg')):
    lines = open(m).read().strip().splitlines()
    subj = lines[0].strip()
    body = ' '.join(x.strip() for x in lines[1:] if x.strip())
    sha = bysubj.get(subj)
    if not sha or sha in have:
        continue
    prop = os.path.basename(m).split('-')[0]
    kf['fixed'].append(f'fixed: property={prop} {sha} {subj[5:]} -- {body}'[:900])
sigs = {(k['property'], k['signature']) for k in kf['known']}
for f in sorted(glob.glob(f'{root}/fixes/known_*.json')):
    for e in json.load(open(f)):
        if (e['property'], e['signature']) not in sigs:
            kf['known'].append(e)
            sigs.add((e['property'], e['signature']))
json.dump(kf, open(f'{root}/known_findings.json', 'w'), indent=1)
print(len(kf['known']), 'known;', len(kf['fixed']), 'fixed')
